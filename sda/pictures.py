"""Token rules on concrete one- and two-token pictures (C04 dispatch / applicability / sign, C05 duplicate and
inapplicable codes, C06 writer/reader agreement, C18 clock use of the parser).

The Formatter handed to `Formatter::format` / `Formatter::parse` is a concrete short field list; the loop over
the fields is iterated exactly, so every exit state corresponds to one way through the token's arm.
"""
from __future__ import annotations

import re

from .lin import SYMTAB, Form
from .spec import D_US, H_US, MI_US, S_US, Spec
from .values import VAdt, VInt

DATE_T = {'date::Date', 'timestamp::Timestamp', 'oracle::Date'}
TIME_T = {'time::Time', 'timestamp::Timestamp', 'interval::IntervalDT', 'oracle::Date'}
CLOCK_T = {'time::Time', 'timestamp::Timestamp', 'oracle::Date'}          # 12-hour clock and meridian
FRAC_T = {'time::Time', 'timestamp::Timestamp', 'interval::IntervalDT'}
INTERVALS = {'interval::IntervalYM', 'interval::IntervalDT'}


def applicable(kind, t, parsing):
    """does a token of this kind apply to values of type t (statement of C04/C05 + rustdoc of the types)"""
    if kind in ('Hyphen', 'Colon', 'Slash', 'Backslash', 'Comma', 'Dot', 'Semicolon', 'T', 'Blank'):
        return True
    if kind in ('WeekOfMonth', 'WeekOfYear'):
        return (t in DATE_T) and not parsing          # output-only codes
    if kind == 'Year' or kind == 'Month':
        return t in DATE_T or t == 'interval::IntervalYM'
    if kind == 'Day':
        return t in DATE_T or t == 'interval::IntervalDT'
    if kind in ('DayName', 'MonthName', 'DayOfWeek', 'DayOfYear'):
        return t in DATE_T
    if kind in ('Hour24', 'Minute', 'Second'):
        return t in TIME_T
    if kind in ('Hour12', 'AmPm'):
        return t in CLOCK_T
    if kind == 'Fraction':
        return t in FRAC_T
    raise KeyError(kind)


DUPLICATE_GROUPS = [
    {'YYYY', 'YYY', 'YY', 'Y'}, {'MM', 'MONTH', 'Mon'}, {'DD'}, {'HH24', 'HH12'}, {'MI'}, {'SS'}, {'FF', 'FF3', 'FF9'},
    {'AM', 'a.m.'}, {'D', 'DAY', 'dy'}, {'DDD'},
]
EXCLUSIVE = [('HH24', 'AM'), ('HH24', 'a.m.')]      # the 24-hour code precludes a meridian indicator, in both orders

TABLE_OF = {
    'Month': ('format::MONTH_TABLE', 'month'), 'Day': ('format::DAY_TABLE', 'day'), 'Hour24': ('format::HOUR_TABLE', H_US),
    'Hour12': ('format::HOUR_TABLE', None), 'Minute': ('format::MINUTE_SECOND_TABLE', MI_US), 'Second': ('format::MINUTE_SECOND_TABLE', S_US),
    'DayOfYear': ('format::DAY_OF_YEAR_TABLE', None), 'WeekOfMonth': ('format::WEEK_OF_MONTH_TABLE', 'day'),
    'WeekOfYear': ('format::WEEK_OF_YEAR_TABLE', None), 'DayOfWeek': ('format::DAY_OF_WEEK_TABLE', None),
}
STYLE_ROW = {'Capital': 0, 'Lower': 1, 'Upper': 2, 'AbbrCapital': 3, 'AbbrLower': 4, 'AbbrUpper': 5}
PUNCT = {'Hyphen': '-', 'Colon': ':', 'Slash': '/', 'Backslash': '\\', 'Comma': ',', 'Dot': '.', 'Semicolon': ';', 'T': 'T', 'Blank': ' '}
AMPM_TEXT = {'Upper': ('AM', 'PM'), 'Lower': ('am', 'pm'), 'UpperDot': ('A.M.', 'P.M.'), 'LowerDot': ('a.m.', 'p.m.')}


def _tag_of(form: Form):
    if len(form.terms) == 1 and form.c == 0 and form.terms[0][1] == 1:
        info = SYMTAB.syms[form.terms[0][0]]
        if info.kind == 'opaque' and info.data:
            return info.data[0]
        if info.kind == 'div':
            return ('div', info.data[1])
    return None


def _single_casts(form: Form):
    """strip value-preserving casts"""
    return form


def picture_contract(c):
    key, variant = c.key, c.variant
    parts = variant[4:].split('|')
    names = [p for p in parts[1:] if p != '']
    cat = {t[0]: t for t in Spec.TOKENS}
    toks = [cat[n] for n in names]
    m = re.search(r'<&(?:mut std::string::String|str), ([\w:]+)>$', key)
    t = m.group(1)
    fmt = key.startswith('format::Formatter::format')
    pic = ' '.join(names) if names else '(empty)'
    oks = []
    for (st, ret) in c.exits:
        kind, v = c.split_result(ret)
        if kind == 'ok':
            oks.append(st)
    if fmt:
        _format_rules(c, t, toks, names, pic, oks)
    else:
        _parse_rules(c, t, toks, names, pic, oks)


def _format_rules(c, t, toks, names, pic, oks):
    if len(toks) > 1:
        return
    # applicability: an inapplicable token yields an error, never text
    if toks:
        kind = toks[0][1]
        app = applicable(kind, t, False)
        c.rec('C04', f"format {t} [{pic}]: token applies to the type iff formatting can succeed", app == bool(oks),
              f"statement: {'applies' if app else 'does not apply'}; analysis: {len(oks)} successful path(s)")
        if not app:
            c.rec('C06', f"format/parse agreement {t} [{pic}]: format rejects", not oks, '')
            return
    for st in oks:
        w = list(st.notes.get('writes', ()))
        # sign: exactly one, first, only for intervals ('-' iff negative)
        if t in INTERVALS:
            ok = len(w) >= 1 and w[0][0] == 'char' and w[0][1] in (43, 45)
            c.rec('C04', f"format {t} [{pic}]: intervals are prefixed once with '+' or '-'", ok, f"writes {w[:2]}")
            w = w[1:]
        else:
            ok = not (w and w[0][0] == 'char' and w[0][1] in (43, 45) and (not toks or toks[0][1] != 'Hyphen' or len(w) > 1))
            c.rec('C04', f"format {t} [{pic}]: no sign for date/time values", ok, f"writes {w[:2]}")
        if not toks:
            c.rec('C04', f"format {t} [(empty)]: nothing but the sign is written", not w, f"writes {w}")
            continue
        name, kind, payload = toks[0]
        if kind in PUNCT:
            ok = len(w) == 1 and w[0] == ('char', ord(PUNCT[kind]))
            c.rec('C04', f"format {t} [{pic}]: punctuation / blank copied", ok, f"writes {w}")
        elif kind in TABLE_OF:
            tbl, what = TABLE_OF[kind]
            if kind == 'Day' and t == 'interval::IntervalDT':
                ok = len(w) == 1 and ((w[0][0] == 'tbl' and w[0][1] == tbl) or w[0][0] == 'write_fmt')
                c.rec('C04', f"format {t} [{pic}]: day count rendered from the day field", ok, f"writes {w}")
                continue
            ok = len(w) == 1 and w[0][0] == 'tbl' and w[0][1] == tbl
            why = f"writes {w}, expected one string from {tbl}"
            if ok and what is not None:
                tag = _tag_of(w[0][2])
                if isinstance(what, str):
                    if t in DATE_T:
                        ok = tag == what
                        why = f"index {w[0][2]!r} is not the {what} of the value"
                else:
                    # (a path on which the time of day is a known constant indexes with that constant)
                    ok = tag == ('div', what) or (w[0][2].is_const() and 0 <= w[0][2].c <= 59)
                    why = f"index {w[0][2]!r} is not the quotient by the unit {what}"
            c.rec('C04', f"format {t} [{pic}]: rendered from its own table indexed by its own field", ok, why)
        elif kind in ('DayName', 'MonthName'):
            base = 'format::DAY_NAME_TABLE' if kind == 'DayName' else 'format::MONTH_NAME_TABLE'
            row = f"{base}[{STYLE_ROW[payload]}]"
            ok = len(w) == 1 and w[0][0] == 'tbl' and w[0][1] == row
            c.rec('C04', f"format {t} [{pic}]: English name in the token's letter case", ok, f"writes {w}, expected row {row}")
        elif kind == 'AmPm':
            am, pm = AMPM_TEXT[payload]
            ok = len(w) == 1 and w[0][0] == 'cstr' and w[0][1] in (am, pm)
            c.rec('C04', f"format {t} [{pic}]: meridian text in the token's style", ok, f"writes {w}")
        elif kind in ('Year', 'Fraction'):
            u = st.notes.get('u32', ())
            width = payload if payload is not None else (6 if kind == 'Fraction' else None)
            ok = len(u) == 1 and not w and u[0][1] == width
            c.rec('C04', f"format {t} [{pic}]: number written with the token's width", ok, f"write_u32 calls {u}, other writes {w}")
    if toks and oks:
        seen = set()
        if toks[0][1] == 'AmPm':
            for st in oks:
                for d in st.notes.get('writes', ()):
                    if d[0] == 'cstr':
                        seen.add(d[1])
            am, pm = AMPM_TEXT[toks[0][2]]
            c.rec('C04', f"format {t} [{pic}]: both AM and PM are produced", seen == {am, pm}, f"{sorted(seen)}")


def _group_of(n):
    for g in DUPLICATE_GROUPS:
        if n in g:
            return g
    return None


def _parse_rules(c, t, toks, names, pic, oks):
    evs = [e for e in c.I.events if e[0] == 'assembly']
    if len(toks) <= 1:
        app = True if not toks else applicable(toks[0][1], t, True)
        c.rec('C05', f"parse {t} [{pic}]: picture accepted iff every code applies to the type (W/WW are output-only)", app == bool(oks),
              f"statement: {'applies' if app else 'does not apply'}; analysis: {len(oks)} accepting path(s)")
        if toks:
            fapp = applicable(toks[0][1], t, False)
            if toks[0][1] not in ('WeekOfMonth', 'WeekOfYear'):
                c.rec('C06', f"format/parse agreement {t} [{pic}]: both sides accept or both reject", fapp == bool(oks), f"format applies: {fapp}; parse accepts: {bool(oks)}")
    else:
        a, b = names
        both = all(applicable(x[1], t, True) for x in toks)
        dup = (_group_of(a) is not None and b in _group_of(a)) or (a, b) in EXCLUSIVE or (b, a) in EXCLUSIVE
        want = both and not dup
        c.rec('C05', f"parse {t} [{pic}]: a repeated field code (or HH24 with a meridian) is rejected", want == bool(oks),
              f"statement: {'accept' if want else 'reject'}; analysis: {len(oks)} accepting path(s)")
    if not oks:
        return
    kinds = [x[1] for x in toks]
    # leftover input: a value is assembled only after the whole text was consumed
    for e in evs:
        c.rec('C05', f"parse {t} [{pic}]: input text left over is rejected (the value is built only from fully consumed text)",
              bool(e[4].get('input_consumed')), 'no provably empty remaining input at the assembly step')
    # weekday fields are compared with the weekday of the date
    if any(k in ('DayOfWeek', 'DayName') for k in kinds) and t in DATE_T:
        for e in evs:
            c.rec('C05', f"parse {t} [{pic}]: a weekday field is checked against the date", e[4].get('dowcmp', 0) >= 1, 'no weekday comparison on the accepting path')
    # day of year: 1..=365, 366 only in leap years
    if 'DayOfYear' in kinds and t in DATE_T:
        hi = {True: 0, False: 0}
        lo_ok = True
        for e in c.I.events:
            if e[0] == 'doy' and e[2] is not None:
                hi[e[2]] = max(hi[e[2]], e[1][1])
                lo_ok = lo_ok and e[1][0] >= 1
        c.rec('C05', f"parse {t} [{pic}]: day of year accepted exactly in 1..=365 (366 in leap years)", lo_ok and hi[True] == 366 and hi[False] == 365,
              f"largest accepted day of year: leap {hi[True]}, common {hi[False]}; lower bound ok: {lo_ok}")
    # a weekday field is compared with the weekday of the *assembled* date: the record fields at the comparison are the final ones
    if any(k in ('DayOfWeek', 'DayName') for k in kinds) and t in DATE_T:
        for e in evs:
            chk, st_ = e[4].get('dowcheck'), e[5]
            ok = chk is not None
            why = 'no date was built for the weekday comparison'
            if ok:
                for nm, f0 in zip(('year', 'month', 'day'), chk):
                    f1 = e[4].get(nm)
                    if f0 is None or not f1 or not (f0 == f1[0] or st_.num.eq0(f0.sub(f1[0]))):
                        ok = False
                        why = f"{nm} at the weekday comparison is {f0!r}, the assembled {nm} is {f1[0] if f1 else None!r}"
                        break
            c.rec('C05', f"parse {t} [{pic}]: the weekday field is checked against the date that is returned (after day-of-year resolution)", ok, why)
    # day of year together with a month or a day field: the text field is kept and the other part comes from the day of the year
    if 'DayOfYear' in kinds and t in DATE_T and len(kinds) == 2:
        other = [k for k in kinds if k != 'DayOfYear']
        if other and other[0] in ('Month', 'MonthName'):
            hi = max((e[4]['day'][1][1] for e in evs if e[4].get('day')), default=0)
            c.rec('C05', f"parse {t} [{pic}]: with a month field the day comes from the day of the year (all of 1..=31 reachable)", hi >= 31,
                  f"largest day reaching the assembly: {hi}")
        if other and other[0] == 'Day':
            lo = min((e[4]['month'][1][0] for e in evs if e[4].get('month')), default=99)
            hi = max((e[4]['month'][1][1] for e in evs if e[4].get('month')), default=0)
            c.rec('C05', f"parse {t} [{pic}]: with a day field the month comes from the day of the year (all of 1..=12 reachable)", lo <= 1 and hi >= 12,
                  f"months reaching the assembly: {lo}..{hi}")
    # a meridian code: the reader looks for the texts the writer emits for that spelling (dotted or plain)
    if kinds == ['AmPm']:
        dotted = 'Dot' in str(toks[0][2])
        lits = {bytes(e[1]).upper() for e in c.I.events if e[0] == 'cmplit'}
        want = {b'A.M.', b'P.M.'} if dotted else {b'AM', b'PM'}
        mer = lits & {b'A.M.', b'P.M.', b'AM', b'PM'}
        if mer:         # (an implementation that matches the text by patterns compares with no literal: the rule does not apply)
            c.rec('C05', f"parse {t} [{pic}]: the meridian text is matched in the spelling of the picture ({'A.M. / P.M.' if dotted else 'AM / PM'}, any letter case)",
                  want <= mer, f"literals the reader compares the input with: {sorted(x.decode('latin1') for x in mer)}")
    # 12-hour field: only 1..=12 reach the assembly (0 and 13.. are rejected, empty input defaults to 12)
    if kinds == ['Hour12']:
        for e in evs:
            h = e[4].get('hour')
            if h:
                lo, hi = h[1]
                c.rec('C05', f"parse {t} [{pic}]: a 12-hour value outside 1..=12 is rejected", lo >= 1 and hi <= 12, f"hour reaching the assembly in [{lo}, {hi}]")
    # 12-hour clock with a meridian, in both field orders: AM maps 12 to 0, PM adds 12 except to 12
    if sorted(kinds) == ['AmPm', 'Hour12']:
        seen = set()
        for e in evs:
            h = e[4].get('hour')
            am = e[4].get('ampm')
            if not h or am is None:
                c.rec('C05', f"parse {t} [{pic}]: meridian decided on the accepting path", False, f"hour {h}, meridian {am}")
                continue
            lo, hi = h[1]
            seen.add(am)
            want = {'Am': (0, 11), 'Pm': (12, 23), 'none': (1, 12)}[am]
            c.rec('C05', f"parse {t} [{pic}]: 12-hour value with meridian {am} denotes an hour in {want[0]}..={want[1]}", want[0] <= lo and hi <= want[1],
                  f"hour reaching the assembly in [{lo}, {hi}]")
        c.rec('C05', f"parse {t} [{pic}]: AM, PM and an absent meridian are all accepted", seen >= {'Am', 'Pm', 'none'}, f"{sorted(seen)}")
    # C18: which fields come from the clock
    has_date = t in DATE_T
    year_tok = [x for x in toks if x[1] == 'Year']
    full_year = bool(year_tok) and all(x[2] == 4 for x in year_tok)
    month_set = any(x[1] in ('Month', 'MonthName') for x in toks)
    for e in evs:
        tainted, reads = set(e[2]), e[3]
        if not has_date:
            c.rec('C18', f"parse {t} [{pic}]: types without a date part never read the clock", reads == 0 and not tainted, f"{reads} reading(s), tainted {sorted(tainted)}")
            continue
        want = set()
        optional = set()
        if not year_tok:
            want.add('year')
        elif not full_year:
            optional.add('year')        # Y/YY/YYY: completed from the clock unless the text spells a longer year
        if not month_set and not any(x[1] == 'DayOfYear' for x in toks):
            want.add('month')           # (with DDD the month is determined by the day of the year)
        c.rec('C18', f"parse {t} [{pic}]: exactly the omitted (or abbreviated) year / omitted month come from the clock",
              want <= tainted <= (want | optional), f"clock-dependent fields {sorted(tainted)}, expected {sorted(want)} (+ optionally {sorted(optional)})")
        need_read = bool(want) or bool(tainted)
        may_read = need_read or not month_set or not full_year      # an omitted (or abbreviated) year / month code may consult the clock
        c.rec('C18', f"parse {t} [{pic}]: at most one clock reading per parse, none when year and month are given in full",
              (reads == 1 if need_read else (reads <= 1 if may_read else reads == 0)),
              f"{reads} reading(s)")
    # completion of abbreviated years: the clock is used exactly when at most n characters were consumed (YY: a longer
    # year is taken literally)
    for e in c.I.events:
        if e[0] != 'parse_year':
            continue
        (ml_lo, ml_hi), tnt, (clo, chi) = e[1], e[2], e[3]
        if ml_lo != ml_hi:
            continue
        n = ml_lo
        if n == 2:
            ok = (tnt and chi <= 2) or (not tnt and clo >= 3)
            c.rec('C18', f"parse {t} [{pic}]: a two-digit year field completes from the clock iff at most 2 characters were read", ok,
                  f"clock-dependent: {tnt}, characters consumed in [{clo}, {chi}]")
        elif n in (1, 3):
            c.rec('C18', f"parse {t} [{pic}]: {n}-digit year fields are completed with the leading digits of the current year", tnt, '')
        if n in (1, 2, 3) and tnt and len(e) > 4 and e[4] is not None:
            c.rec('C18', f"parse {t} [{pic}]: the completion keeps the current year up to its last {n} digit(s) (current year - current year mod {10 ** n})",
                  e[4] == [10 ** n], f"clock-derived part of the year: multiples of {e[4]}")
        elif n >= 4:
            c.rec('C18', f"parse {t} [{pic}]: a full year never consults the clock", not tnt, '')
    if has_date and not any(x[1] in ('Day', 'DayOfYear') for x in toks):
        for e in evs:
            d = e[4].get('day')
            if d:
                c.rec('C18', f"parse {t} [{pic}]: an omitted day is 1", d[1] == (1, 1), f"day in {d[1]}")
    if t in CLOCK_T | {'interval::IntervalDT'}:
        for e in evs:
            for fld, tk in (('hour', ('Hour24', 'Hour12')), ('minute', ('Minute',)), ('sec', ('Second',)), ('usec', ('Fraction',))):
                if not any(x[1] in tk for x in toks) and not (fld == 'hour' and any(x[1] == 'AmPm' for x in toks)):
                    v = e[4].get(fld)
                    if v:
                        c.rec('C18', f"parse {t} [{pic}]: omitted time fields are zero", v[1] == (0, 0), f"{fld} in {v[1]}")
