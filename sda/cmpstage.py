"""Stage E1g: the answer of a mixed-type `partial_cmp` is possible for the converted counts on every exit.

E1's contract for the mixed comparisons (C12: Time vs IntervalDT; C17: Date / Timestamp / Oracle-style date) demands
that every `Ord::cmp` executed compares the converted counts with the receiver on the left.  That leaves one hole:
an exit that returns a *constant* ordering without comparing (a fast path, an error arm of a conversion).  This stage
closes it: each mixed `partial_cmp` root is run by the abstract interpreter and on every exit state

    returns None                                   -> the two values are reported incomparable: refuted
    returns Some(o) with o a single ordering       -> o must be possible for  left - right  in the exit state's interval:
                                                      Less needs lo < 0, Equal needs lo <= 0 <= hi, Greater needs hi > 0
    returns Some of several orderings (a cmp result)-> E1's rule decides (nothing added here)

A constant ordering is exact information (every concrete run along that path returns it), the interval of the
difference over-approximates the concrete states of the path, so "not possible in the interval" means wrong for every
input that takes the path.  An unreadable shape is a note, never a violation.

Not in pipeline.E1_SOURCES: own cache file (`e1g-<cfg>-<hash>.json`).
"""
from __future__ import annotations

import json
import re
import sys

from .facts import AnalysisIncomplete, Facts
from .values import VAdt

D_US = 86_400_000_000
# root pattern, property, scale of the receiver's count, scale of the argument's count (days -> microseconds)
ROOTS = [
    (r'^<time::Time as std::cmp::PartialOrd<interval::IntervalDT>>::partial_cmp$', 'C12', 1, 1),
    (r'^<interval::IntervalDT as std::cmp::PartialOrd<time::Time>>::partial_cmp$', 'C12', 1, 1),
    (r'^<date::Date as std::cmp::PartialOrd<timestamp::Timestamp>>::partial_cmp$', 'C17', D_US, 1),
    (r'^<timestamp::Timestamp as std::cmp::PartialOrd<date::Date>>::partial_cmp$', 'C17', 1, D_US),
    (r'^oracle::<impl std::cmp::PartialOrd<oracle::Date> for timestamp::Timestamp>::partial_cmp$', 'C17', 1, 1),
    (r'^<oracle::Date as std::cmp::PartialOrd<timestamp::Timestamp>>::partial_cmp$', 'C17', 1, 1),
    (r'^oracle::<impl std::cmp::PartialOrd<oracle::Date> for date::Date>::partial_cmp$', 'C17', D_US, 1),
    (r'^<oracle::Date as std::cmp::PartialOrd<date::Date>>::partial_cmp$', 'C17', 1, D_US),
]


def run(facts_path):
    from .contracts import Ctx, _split_exits
    from .interp import Interp
    from .models import Models
    from .spec import Spec
    f = Facts(facts_path)
    spec = Spec(f)
    I = Interp(f, spec, Models(f))
    out = {'records': [], 'notes': [], 'roots': 0, 'exits': 0}
    keys = list(spec.root_keys())
    for pat, prop, ls, rs in ROOTS:
        rx = re.compile(pat)
        for key in [k for k in keys if rx.match(k)]:
            out['roots'] += 1
            try:
                st, args, res = I.run_root(key)
                ctx = Ctx(I, key, args, _split_exits(I, res))
                left, right = ctx.argc(0), ctx.argc(1)
                if left is None or right is None:
                    out['notes'].append(f"{key}: operands are not count-carrying values; undecided")
                    continue
                diff = left.scale(ls).sub(right.scale(rs))
                for (s2, ret) in ctx.exits:
                    out['exits'] += 1
                    verdict = check_exit(I, s2, ret, diff)
                    if verdict is None:
                        continue
                    ok, why = verdict
                    if ok is None:
                        out['notes'].append(f"{key}: {why}")
                    else:
                        out['records'].append({'prop': prop, 'root': key, 'clause': 'mixed partial_cmp: a constant answer is possible for the converted counts on that path',
                                               'ok': ok, 'detail': why})
            except AnalysisIncomplete as e:
                out['notes'].append(f"{key}: not analysable ({str(e)[:160]}); undecided here")
            except Exception as e:
                out['notes'].append(f"{key}: the stage could not read the exits ({type(e).__name__}: {str(e)[:120]}); undecided here")
    # one record per (root, verdict)
    seen, recs = set(), []
    for r in out['records']:
        k = (r['root'], r['ok'], r['detail'] if not r['ok'] else '')
        if k not in seen:
            seen.add(k)
            recs.append(r)
    out['records'] = recs
    return out


def check_exit(I, st, ret, diff):
    if not isinstance(ret, VAdt):
        return None, f"result is {ret!r}"
    t = I.facts.types.get(ret.ty, {})
    names = {v['idx']: v['name'] for v in t.get('variants', [])}
    if set(names.values()) != {'None', 'Some'}:
        return None, f"result type {t.get('def')}"
    vs = set(ret.variants)
    some = [i for i, n in names.items() if n == 'Some'][0]
    lo, hi = st.num.rng(diff)
    if vs == {1 - some} or (some not in vs):
        return False, f"returns None (incomparable) for left - right in [{lo}, {hi}]"
    if vs != {some}:
        return None, 'may return None or Some; undecided'
    o = ret.variants[some][0]
    if not isinstance(o, VAdt):
        return None, f"ordering is {o!r}"
    on = {v['idx']: v['name'] for v in I.facts.types.get(o.ty, {}).get('variants', [])}
    got = sorted(on.get(i, '?') for i in o.variants)
    if len(got) != 1:
        return None            # a comparison result: E1's operand rule decides
    possible = {'Less': lo < 0, 'Equal': lo <= 0 <= hi, 'Greater': hi > 0}
    if got[0] not in possible:
        return None, f"ordering {got[0]}"
    if possible[got[0]]:
        return True, ''
    want = [k for k, v in possible.items() if v]
    return False, f"a path returns the constant {got[0]} where left - right lies in [{lo}, {hi}] (the counts compare {' or '.join(want)})"


def main():
    out = run(sys.argv[1])
    with open(sys.argv[2], 'w') as fh:
        json.dump(out, fh, indent=1, default=str)
    print(f"cmpstage: roots {out['roots']} exits {out['exits']} records {len(out['records'])} refuted {sum(1 for r in out['records'] if not r['ok'])}")


if __name__ == '__main__':
    main()
