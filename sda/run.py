#!/usr/bin/env python3
"""Developer entry: run engine E1 over roots of a fact file and print the obligations."""
import sys
import time
import traceback

from .facts import AnalysisIncomplete, Facts
from .interp import Interp
from .models import Models
from .spec import Spec


def main():
    path = sys.argv[1]
    pat = sys.argv[2] if len(sys.argv) > 2 else ''
    verbose = '-v' in sys.argv
    f = Facts(path)
    spec = Spec(f)
    models = Models(f)
    I = Interp(f, spec, models)
    I.trace = '-t' in sys.argv
    roots = [k for k in spec.root_keys() if pat in k]
    t0 = time.time()
    incomplete = []
    I.run_kernel()
    for k in roots:
        t1 = time.time()
        try:
            st, args, res = I.run_root(k)
            if verbose:
                print(f"ROOT {k}: {len(res)} exit states, {time.time()-t1:.2f}s")
                for (s, v) in res[:6]:
                    print("    ->", v)
        except AnalysisIncomplete as e:
            incomplete.append((k, str(e)))
            print(f"INCOMPLETE {k}: {e}")
        except Exception as e:
            incomplete.append((k, repr(e)))
            print(f"CRASH {k}: {e!r}")
            if verbose:
                traceback.print_exc()
    print(f"roots {len(roots)} incomplete {len(incomplete)} time {time.time()-t0:.1f}s steps {I.steps}")
    byk = {}
    for o in I.obls.values():
        d = byk.setdefault(o.kind, [0, 0])
        d[0] += 1
        if o.fails:
            d[1] += 1
    print("obligations (sites, failing):", byk)
    for o in sorted(I.obls.values(), key=lambda o: (o.fn, o.bb)):
        if o.fails:
            print(f"FAIL {o.kind} {o.fn} bb{o.bb} {o.desc} @ {o.span}\n       visits {o.visits} fails {o.fails} sample root {o.sample['root']}\n       {o.sample['detail']}")
    if I.unmodelled:
        print("UNMODELLED-CALL:")
        for k, n in sorted(I.unmodelled.items()):
            print("   ", n, k)


if __name__ == '__main__':
    main()
