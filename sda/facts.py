"""Loading and indexing of the fact file written by mirdump (engine E0)."""
from __future__ import annotations

import json
import re


class AnalysisIncomplete(Exception):
    """fail-closed condition: anchor missing, unsupported construct, budget exceeded ..."""


class Facts:
    def __init__(self, path):
        with open(path) as f:
            d = json.load(f)
        self.raw = d
        self.path = path
        self.features = d['features']
        self.types = d['types']
        self.bodies = {}
        for b in d['bodies']:
            self.bodies[b['key']] = b
            for p in b.get('promoted', []):
                self.bodies[p['key']] = p
        self.consts = {c['def']: c for c in d['consts'] if 'val' in c}
        self.items = {i['def']: i for i in d['items']}
        self.impls = d['impls']
        self.adts = {a['def']: a for a in d['adts']}
        self.statics = {s['def']: s for s in d['statics']}
        self.roots = d['roots']
        self.dtf_impls = d['dtf_impls']
        self.dtf_consts = d['dtf_consts']
        self.errors = d['errors']
        self.traits = d['traits']
        self._loops = {}

    def ty(self, name):
        t = self.types.get(name)
        if t is None:
            raise AnalysisIncomplete(f"unknown type {name}")
        return t

    def int_range(self, name):
        t = self.types.get(name)
        if t is None:
            t = _prim(name)
        if t is None or t['k'] not in ('int', 'char', 'bool'):
            return None
        if t['k'] == 'bool':
            return (0, 1)
        if t['k'] == 'char':
            return (0, 0x10FFFF)
        bits = t['bits']
        if t['signed']:
            return (-(1 << (bits - 1)), (1 << (bits - 1)) - 1)
        return (0, (1 << bits) - 1)

    def const(self, defpath):
        c = self.consts.get(defpath)
        if c is None:
            raise AnalysisIncomplete(f"constant {defpath} not found")
        return c

    def const_by_suffix(self, suffix):
        hits = [c for d, c in self.consts.items() if d == suffix or d.endswith('::' + suffix)]
        if len(hits) != 1:
            raise AnalysisIncomplete(f"constant *::{suffix}: {len(hits)} matches")
        return hits[0]

    def body(self, key):
        b = self.bodies.get(key)
        if b is None:
            raise AnalysisIncomplete(f"no MIR body for {key}")
        return b


_PRIM = {
    'i8': (8, True), 'i16': (16, True), 'i32': (32, True), 'i64': (64, True), 'i128': (128, True), 'isize': (64, True),
    'u8': (8, False), 'u16': (16, False), 'u32': (32, False), 'u64': (64, False), 'u128': (128, False), 'usize': (64, False),
}


def _prim(name):
    if name in _PRIM:
        b, s = _PRIM[name]
        return {'k': 'int', 'bits': b, 'signed': s}
    if name == 'bool':
        return {'k': 'bool'}
    if name == 'char':
        return {'k': 'char'}
    return None


def span_file_line(sp: str):
    m = re.match(r'^(.*?):(\d+):(\d+)', sp)
    if not m:
        return sp, 0
    return m.group(1), int(m.group(2))


def cfg_info(body):
    """successor lists (ignoring unwind edges), loop heads and natural loop bodies"""
    n = len(body['blocks'])
    succ = [[] for _ in range(n)]
    for i, bb in enumerate(body['blocks']):
        t = bb['term']
        k = t['t']
        if k == 'goto':
            succ[i] = [t['target']]
        elif k == 'switch':
            succ[i] = [c[1] for c in t['cases']] + [t['otherwise']]
        elif k in ('call',):
            if t['target'] is not None:
                succ[i] = [t['target']]
        elif k in ('assert', 'drop'):
            succ[i] = [t['target']]
    # DFS for back edges
    color = [0] * n
    back = []
    stack = [(0, iter(succ[0]))]
    color[0] = 1
    while stack:
        v, it = stack[-1]
        adv = False
        for w in it:
            if color[w] == 0:
                color[w] = 1
                stack.append((w, iter(succ[w])))
                adv = True
                break
            elif color[w] == 1:
                back.append((v, w))
        if not adv:
            color[v] = 2
            stack.pop()
    pred = [[] for _ in range(n)]
    for v in range(n):
        for w in succ[v]:
            pred[w].append(v)
    loops = {}
    for (v, h) in back:
        blocks = loops.setdefault(h, {h})
        st = [v]
        while st:
            x = st.pop()
            if x in blocks:
                continue
            blocks.add(x)
            st.extend(pred[x])
    return succ, loops


def _place_locals(p, out):
    out.add(p['l'])
    for e in p['p']:
        if e['k'] == 'index':
            out.add(e['l'])


def _op_locals(o, out):
    if o['o'] in ('copy', 'move'):
        _place_locals(o['p'], out)


def liveness(body, succ):
    """live-in sets of locals per basic block; locals whose address is taken are always live"""
    n = len(body['blocks'])
    use = [set() for _ in range(n)]
    defs = [set() for _ in range(n)]
    addr = set()
    for i, bb in enumerate(body['blocks']):
        u, d = use[i], defs[i]

        def use_l(ls):
            for l in ls:
                if l not in d:
                    u.add(l)
        for s in bb['stmts']:
            k = s['s']
            if k == 'assign':
                rv = s['rv']
                ls = set()
                r = rv['r']
                if r in ('use', 'un', 'cast', 'repeat'):
                    _op_locals(rv['a'], ls)
                elif r == 'bin':
                    _op_locals(rv['a'], ls)
                    _op_locals(rv['b'], ls)
                elif r in ('ref', 'rawptr'):
                    _place_locals(rv['p'], ls)
                    addr.add(rv['p']['l'])
                elif r == 'discr':
                    _place_locals(rv['p'], ls)
                elif r == 'agg':
                    for o in rv['ops']:
                        _op_locals(o, ls)
                use_l(ls)
                p = s['p']
                if p['p']:
                    ls2 = set()
                    _place_locals(p, ls2)
                    use_l(ls2)
                else:
                    d.add(p['l'])
            elif k == 'setdiscr':
                ls2 = set()
                _place_locals(s['p'], ls2)
                use_l(ls2)
            elif k == 'assume':
                ls = set()
                _op_locals(s['a'], ls)
                use_l(ls)
        t = bb['term']
        k = t['t']
        ls = set()
        if k == 'switch':
            _op_locals(t['a'], ls)
        elif k == 'assert':
            _op_locals(t['cond'], ls)
            for o in t['ops']:
                _op_locals(o, ls)
        elif k == 'call':
            _op_locals(t['func'], ls)
            for o in t['args']:
                _op_locals(o, ls)
            if t['dest']['p']:
                _place_locals(t['dest'], ls)
        elif k == 'drop':
            _place_locals(t['p'], ls)
        elif k == 'return':
            ls.add(0)
        use_l(ls)
        if k == 'call' and not t['dest']['p']:
            d.add(t['dest']['l'])
    live_in = [set() for _ in range(n)]
    changed = True
    while changed:
        changed = False
        for i in range(n - 1, -1, -1):
            out = set()
            for w in succ[i]:
                out |= live_in[w]
            li = use[i] | (out - defs[i])
            if li != live_in[i]:
                live_in[i] = li
                changed = True
    return live_in, addr
