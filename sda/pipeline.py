"""Fact extraction + E1 analysis with a cache keyed by the content of /repo's sources.

Every check calls `ensure(cfg)`: the key covers every file that can influence the build
(src/**, Cargo.toml, Cargo.lock, benches are irrelevant to the lib target), the driver
binary, the analyser's own sources and the configuration, so any edit under /repo forces
re-extraction and re-analysis; within one tree state the 19 per-property commands share
one extraction and one analysis.
"""
from __future__ import annotations

import fcntl
import hashlib
import json
import os
import shutil
import subprocess
import sys
import time

from .facts import AnalysisIncomplete

VERIF = os.path.dirname(os.path.dirname(os.path.abspath(__file__)))
REPO = os.environ.get('VERIF_REPO', '/repo')
WORK = os.path.join(VERIF, '.work')

CONFIGS = {
    # name: (cargo features, debug assertions)
    'full': ('oracle,serde', 'on'),
    'none': ('', 'on'),
    'oracle': ('oracle', 'on'),
    'serde': ('serde', 'on'),
    'full-nodebug': ('oracle,serde', 'off'),
    # calendar functions on every residue class of the 400-year cycle (thorough tier of C10 / C11): facts of 'full',
    # E1 restricted to the class tasks
    'full-calendar': ('oracle,serde', 'on'),
}
FACTS_OF = {'full-calendar': 'full'}
ONLY = {'full-calendar': 'calendar:all'}
QUICK = ['full']
THOROUGH = ['full', 'none', 'oracle', 'serde', 'full-nodebug']


def _hash_files(paths):
    h = hashlib.sha256()
    for p in sorted(paths):
        h.update(p.encode())
        h.update(b'\0')
        try:
            with open(p, 'rb') as f:
                h.update(f.read())
        except OSError:
            h.update(b'<missing>')
        h.update(b'\0')
    return h


def tree_key():
    files = []
    for root, dirs, fs in os.walk(os.path.join(REPO, 'src')):
        for f in fs:
            files.append(os.path.join(root, f))
    for f in ('Cargo.toml', 'Cargo.lock', 'build.rs', 'rust-toolchain', 'rust-toolchain.toml', '.cargo/config.toml'):
        files.append(os.path.join(REPO, f))
    files.append(os.path.join(VERIF, 'driver', 'target', 'release', 'mirdump'))
    files.append(os.path.join(VERIF, 'extract.sh'))
    return _hash_files(files).hexdigest()[:24]


E1_SOURCES = ['lin.py', 'values.py', 'facts.py', 'interp.py', 'models.py', 'spec.py', 'contracts.py', 'analyze.py', 'pp.py', 'pictures.py', 'lexer.py', 'kernel.py']


def e1_key():
    return _hash_files([os.path.join(VERIF, 'sda', f) for f in E1_SOURCES]).hexdigest()[:12]


def prune_old(keep):
    """remove cache directories of other tree states: never one touched in the last two hours (another check may be
    using it), otherwise keep the 12 most recent"""
    if not os.path.isdir(WORK):
        return
    now = time.time()
    ds = []
    for d in os.listdir(WORK):
        p = os.path.join(WORK, d)
        if os.path.isdir(p) and d != keep and len(d) == 24:
            try:
                m = max([os.path.getmtime(p)] + [os.path.getmtime(os.path.join(p, f)) for f in os.listdir(p)])
            except OSError:
                continue
            if now - m > 7200:
                ds.append((m, p))
    ds.sort()
    for _, p in ds[:-12]:
        shutil.rmtree(p, ignore_errors=True)


def ensure(cfg='full', need_e1=True, log=sys.stderr):
    """returns (facts_path, e1_path) for the current tree; computes them if missing"""
    if not os.path.exists(os.path.join(VERIF, 'driver', 'target', 'release', 'mirdump')):
        raise AnalysisIncomplete('driver not built: run ./setup.sh')
    key = tree_key()
    d = os.path.join(WORK, key)
    os.makedirs(d, exist_ok=True)
    prune_old(key)
    feats, da = CONFIGS[cfg]
    facts = os.path.join(d, f'facts-{FACTS_OF.get(cfg, cfg)}.json')
    e1 = os.path.join(d, f'e1-{cfg}-{e1_key()}.json')
    lock = open(os.path.join(d, f'.lock-{FACTS_OF.get(cfg, cfg)}'), 'w')
    fcntl.flock(lock, fcntl.LOCK_EX)
    try:
        if not os.path.exists(facts):
            t0 = time.time()
            tmp = facts + '.tmp'
            r = subprocess.run([os.path.join(VERIF, 'extract.sh'), feats, tmp, da], capture_output=True, text=True)
            if r.returncode != 0 or not os.path.exists(tmp):
                raise AnalysisIncomplete('fact extraction failed: ' + (r.stdout + r.stderr)[-2000:])
            os.replace(tmp, facts)
            print(f"[pipeline] extracted facts ({cfg}) in {time.time()-t0:.1f}s", file=log)
        if need_e1 and not os.path.exists(e1):
            t0 = time.time()
            cmd = [sys.executable, '-m', 'sda.analyze', facts, e1] + (['--only', ONLY[cfg]] if cfg in ONLY else [])
            r = subprocess.run(cmd, capture_output=True, text=True, cwd=VERIF)
            if r.returncode != 0 or not os.path.exists(e1):
                raise AnalysisIncomplete('E1 analysis failed: ' + (r.stdout + r.stderr)[-2000:])
            print(f"[pipeline] E1 analysis ({cfg}) in {time.time()-t0:.1f}s", file=log)
    finally:
        fcntl.flock(lock, fcntl.LOCK_UN)
        lock.close()
    return facts, (e1 if need_e1 else None)


STAGE_SOURCES = {'e1f': ['floatform.py'], 'e1g': ['cmpstage.py'], 'e1h': ['floatform.py', 'digits.py'], 'e1i': ['hour12.py'], 'e1j': ['floatform.py', 'numparse.py'], 'e1k': ['lexaccept.py'], 'e1l': ['weekglue.py'], 'e1m': ['names.py']}


def ensure_stage(stage, cfg='full', log=sys.stderr):
    """an additional analysis stage over the facts of one configuration (own cache file; E1's cache is not touched)"""
    facts, _ = ensure(cfg, need_e1=False, log=log)
    d = os.path.dirname(facts)
    key = _hash_files([os.path.join(VERIF, 'sda', f) for f in E1_SOURCES + STAGE_SOURCES[stage]]).hexdigest()[:12]
    out = os.path.join(d, f'{stage}-{FACTS_OF.get(cfg, cfg)}-{key}.json')
    lock = open(os.path.join(d, f'.lock-{stage}-{FACTS_OF.get(cfg, cfg)}'), 'w')
    fcntl.flock(lock, fcntl.LOCK_EX)
    try:
        if not os.path.exists(out):
            mod = {'e1f': 'sda.floatform', 'e1g': 'sda.cmpstage', 'e1h': 'sda.digits', 'e1i': 'sda.hour12', 'e1j': 'sda.numparse', 'e1k': 'sda.lexaccept', 'e1l': 'sda.weekglue', 'e1m': 'sda.names'}[stage]
            tmp = out + f'.tmp{os.getpid()}'
            r = subprocess.run([sys.executable, '-m', mod, facts, tmp], capture_output=True, text=True, cwd=VERIF)
            if r.returncode != 0 or not os.path.exists(tmp):
                raise AnalysisIncomplete(f'stage {stage} failed: ' + (r.stdout + r.stderr)[-2000:])
            os.replace(tmp, out)
    finally:
        fcntl.flock(lock, fcntl.LOCK_UN)
        lock.close()
    return out


def load_json(p):
    with open(p) as f:
        return json.load(f)
