"""Stage E1h: `format::write_u32(w, value, width)` writes the decimal expansion of `value`, zero-padded to `width` (C04).

Every numeric token that is not rendered from a string table (year, fraction, interval days beyond the table, ...) goes
through this one function.  It is run by E1's abstract interpreter once per (writer instance, digit count n = 1..10,
width = 1..10) with `value` symbolic in [10^(n-1), 10^n - 1] (n = 1: from 0; n = 10: up to u32::MAX).  In such a class
the `while val >= 10` loop is decided at every head, so the run is straight-line and the interpreter holds every byte of
the buffer as an expression over `value` (`value - 10*(value/10) + 48`, ...).  The slice handed to `write_str` is
captured (the only write) and decided on every exit:

  D-len     exactly one write; it has max(width, n) bytes                                 (constant comparison)
  D-digit   every byte b_i satisfies 48 <= b_i <= 57 on the path                          (interval)
  D-value   sum (b_i - 48) * 10^(L-1-i)  ==  value                                        (linear identity: the quotient symbols
                                                                                           telescope; decided by `Num.eq0`)

D-digit and D-value together say the bytes are THE decimal expansion (it is unique), zero-padded on the left.  When a
rule cannot be proved the byte expressions are evaluated on witness values (10^(n-1), 10^n - 1, 1234567890 cut to n
digits, ...): a differing witness is a VIOLATION naming the value and width; otherwise the clause is reported as
undecided in the notes.  Nothing of /repo is executed.

Not in pipeline.E1_SOURCES: own cache file (`e1h-<cfg>-<hash>.json`).
"""
from __future__ import annotations

import json
import sys

from .facts import AnalysisIncomplete, Facts
from .floatform import Undecided, eval_form
from .lin import Form
from .values import VAdt, VInt, VSlice

U32 = (1 << 32) - 1


def witnesses(lo, hi):
    c = {lo, hi, (lo + hi) // 2, min(hi, lo + 9), max(lo, hi - 10)}
    s = '1234567890'
    n = len(str(lo)) if lo else 1
    for t in (s[:n], s[-n:], '9' * n, '1' + '0' * (n - 1), '5' * n):
        v = int(t)
        if lo <= v <= hi:
            c.add(v)
    return sorted(c)


def run(facts_path):
    try:
        return _run(facts_path)
    except AnalysisIncomplete:
        raise
    except Exception as e:          # another shape than this driver expects: nothing decided, nothing claimed
        return {'records': [], 'notes': [f"format::write_u32: the stage could not drive the function ({type(e).__name__}: {str(e)[:160]}); undecided"], 'instances': 0, 'classes': 0}


def _run(facts_path):
    from .interp import Interp, State
    from .models import Models
    from .spec import Spec
    f = Facts(facts_path)
    models = Models(f)
    I = Interp(f, Spec(f), models)
    out = {'records': [], 'notes': [], 'instances': 0, 'classes': 0}
    keys = sorted(k for k in f.bodies if k.startswith('format::write_u32'))
    if not keys:
        out['notes'].append('format::write_u32: no such function; the digit rendering clause is undecided')
        return out
    hooked = {}
    for name in ('std::fmt::Write::write_str', 'std::fmt::Write::write_char', 'std::fmt::Write::write_fmt'):
        orig = models.table.get(name)
        if orig is None:
            continue

        def wr(c, orig=orig, name=name):
            a = c.args[1] if len(c.args) > 1 else None
            c.st.notes['w32'] = c.st.notes.get('w32', ()) + ((name.split('::')[-1], a),)
            return orig(c)
        models.table[name] = wr
        hooked[name] = orig
    recs = []
    for key in keys:
        out['instances'] += 1
        body = f.body(key)
        wty = body['locals'][1]['ty']
        for n in range(1, 11):
            lo = 0 if n == 1 else 10 ** (n - 1)
            hi = min(10 ** n - 1, U32)
            for width in range(1, 11):
                out['classes'] += 1
                st = State()
                w = I.top(st, wty, 'w')
                val = I.fresh_int(st, 'u32', 'value', lo, hi)
                vs = val.form.terms[0][0]
                try:
                    res = I.call_local(st, key, [w, val, VInt(Form.const(width), 'usize')])
                except AnalysisIncomplete as e:
                    out['notes'].append(f"{key} [n={n}, width={width}]: not analysable ({str(e)[:120]}); undecided")
                    continue
                for s2, ret in res:
                    recs += decide(I, s2, ret, val, vs, n, width, lo, hi)
    seen = set()
    for clause, ok, why in recs:
        k = (clause, ok, why if ok is False else '')
        if k in seen:
            continue
        seen.add(k)
        out['records'].append({'prop': 'C04', 'clause': clause, 'ok': ok, 'detail': why})
    return out


def decide(I, st, ret, val, vs, n, width, lo, hi):
    ws = st.notes.get('w32', ())
    L = max(width, n)
    tag = f"value of {n} digit(s), width {width}"
    if len(ws) != 1 or ws[0][0] != 'write_str' or not isinstance(ws[0][1], VSlice):
        if not ws and isinstance(ret, VAdt) and ret.single() == 1:
            return []           # an Err exit before anything was written is the writer's business
        return [('write_u32: one write_str with the whole number', None, f"{tag}: writes {[k for k, _ in ws]}")]
    a = ws[0][1]
    ol, oh = st.num.rng(a.off)
    ll, lh = st.num.rng(a.len)
    if ol != oh or ll != lh or a.elem[0] != 'vals':
        return [('write_u32: one write_str with the whole number', None, f"{tag}: slice {a!r} is not a concrete window of the buffer")]
    out = []
    if ll != L:
        return [('write_u32 D-len: max(width, digits) bytes are written', False,
                 f"{tag}: {ll} bytes are written, the zero-padded number has {L}")]
    out.append(('write_u32 D-len: max(width, digits) bytes are written', True, ''))
    elems = a.elem[1].elems[ol:ol + ll]
    if len(elems) != L or not all(isinstance(e, VInt) for e in elems):
        return out + [('write_u32 D-value: the bytes are the decimal expansion', None, f"{tag}: buffer elements {elems!r}")]
    total = Form.const(0)
    digit_ok = True
    for i, e in enumerate(elems):
        a_, b_ = st.num.rng(e.form)
        if a_ < 48 or b_ > 57:
            digit_ok = False
        total = total.add(e.form.addc(-48).scale(10 ** (L - 1 - i)))
    value_ok = st.num.eq0(total.sub(val.form))
    if digit_ok and value_ok:
        out.append(('write_u32 D-digit: every byte is an ASCII digit', True, ''))
        out.append(('write_u32 D-value: the bytes are the decimal expansion', True, ''))
        return out
    # refutation by evaluating the byte expressions
    try:
        for v in witnesses(lo, hi):
            env = {vs: v}
            bs = [eval_form(e.form, dict(env)) for e in elems]
            want = str(v).rjust(L, '0')
            got = ''.join(chr(b) if 32 <= b < 127 else f"\\x{b & 0xff:02x}" for b in bs)
            if got != want:
                return out + [('write_u32 D-value: the bytes are the decimal expansion', False,
                               f"value {v}, width {width}: the buffer expressions give {got!r}, the zero-padded decimal text is {want!r}")]
    except Undecided as e:
        return out + [('write_u32 D-value: the bytes are the decimal expansion', None, f"{tag}: {e}")]
    return out + [('write_u32 D-value: the bytes are the decimal expansion', None,
                   f"{tag}: not proved (digit range {'ok' if digit_ok else 'open'}, identity {'ok' if value_ok else 'open'}), witnesses agree")]


def main():
    out = run(sys.argv[1])
    with open(sys.argv[2], 'w') as fh:
        json.dump(out, fh, indent=1, default=str)
    r = out['records']
    print(f"digits: instances {out['instances']} classes {out['classes']} records {len(r)} proved {sum(1 for x in r if x['ok'])} "
          f"refuted {sum(1 for x in r if x['ok'] is False)} undecided {sum(1 for x in r if x['ok'] is None)}")


if __name__ == '__main__':
    main()
