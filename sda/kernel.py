"""Calendar kernel by residue classes (C01, formulas).

`date2julian` and `julian2date` are 400-year periodic.  They are analysed by E1 once per residue class with the cycle
number left symbolic:

  date2julian(400*a + r, m, d)    for r in 0..400, m in 1..=12, a and d symbolic      (4 800 classes)
  julian2date(146097*c + r')      for r' in 0..146097, c symbolic                        (146 097 classes)

In each class every division has a dividend `k*T + const` with a known sign, so E1's exact-division rule turns the
body into straight-line linear arithmetic in the cycle number: every branch is decided, every overflow / bounds assert
is discharged (this replaces the residual axiom that the path-insensitive analysis of `julian2date` needed), and the
result is `146097*a + C(r, m) + d`, respectively `(400*c + Y(r'), M(r'), D(r'))` with constants found by the
analysis.  The rules below are then evaluated on those constants in the checker:

  K-lin     the result of date2julian is 146097*a + C(r, m) + d            (coefficients exactly 146097 and 1)
  K-step    C(r, m+1) - C(r, m) = length of month m in a year = r (mod 400); December -> January of the next year;
            the cycle closes: C(0, 1) + 146097 - C(399, 12) = 31           => day numbers of consecutive dates are consecutive
  K-anchor  1970-01-01 has Julian day 2440588
  K-inv     julian2date(146097*c + r') = (400*c + Y, M, D), 1 <= M <= 12, 1 <= D <= length of month M, and
            date2julian of that triple is 146097*c + r' again                => julian2date is the inverse on the whole range

No statement of /repo is executed on a concrete input: each class is an abstract run over all cycles at once.
"""
from __future__ import annotations

from .lin import Form, SYMTAB
from .values import VInt, VTuple

CYCLE_DAYS = 146097
J_MIN, J_MAX = 1721426, 5373484          # Julian days of 0001-01-01 and 9999-12-31 (checked against DATE_MIN/MAX by C02)
D2J = 'common::date2julian'
J2D = 'common::julian2date'


def leap(r):
    return r % 4 == 0 and (r % 100 != 0 or r % 400 == 0)


def dom(r, m):
    if m == 2:
        return 29 if leap(r) else 28
    return 30 if m in (4, 6, 9, 11) else 31


DOY = 'common::the_day_of_year'
ISO_T = '<date::Date as Trunc>::trunc_iso_year'
ISO_R = '<date::Date as Round>::round_iso_year'
E_J = 2440588


def iso_windows():
    """residue classes (of the Julian day number modulo the 400-year cycle) within a week of a 1 January, or next to a
    1 July: where the ISO year can differ from the calendar year / where ISO-year rounding switches"""
    out = set()
    j = J_MIN                      # 0001-01-01
    for y in range(1, 401):
        for k in range(-7, 8):
            out.add((j + k) % CYCLE_DAYS)
        jul1 = j + (182 if leap(y % 400) else 181)
        for k in (-1, 0, 1):
            out.add((jul1 + k) % CYCLE_DAYS)
        j += 366 if leap(y % 400) else 365
    return sorted(out)


def class_tasks(facts, full=False, chunk=3300):
    """task variants for the analysis pool.  full: ISO-year units on all 146097 classes (thorough tier), otherwise on the
    windows around 1 January / 1 July only"""
    if D2J not in facts.bodies or J2D not in facts.bodies:
        return []
    out = [f"kclass:d2j:{lo}:{min(lo + 100, 400)}" for lo in range(0, 400, 100)]
    out += [f"kclass:j2d:{lo}:{min(lo + chunk, CYCLE_DAYS)}" for lo in range(0, CYCLE_DAYS, chunk)]
    if DOY in facts.bodies:
        out += [f"kclass:doy:{lo}:{min(lo + 200, 400)}" for lo in range(0, 400, 200)]
    for kind, key in (('isot', ISO_T), ('isor', ISO_R)):
        if key not in facts.bodies:
            continue
        if full:
            out += [f"kclass:{kind}:{lo}:{min(lo + 1000, CYCLE_DAYS)}" for lo in range(0, CYCLE_DAYS, 1000)]
        else:
            n = len(iso_windows())
            out += [f"kclass:{kind}w:{lo}:{min(lo + 400, n)}" for lo in range(0, n, 400)]
    return out


def _lin(form: Form, syms):
    """(constant, {sym: coefficient}) if the form only mentions the given symbols, else None"""
    co = {}
    for s, k in form.terms:
        if s not in syms:
            return None
        co[s] = k
    return form.c, co


def run_classes(I, variant):
    """one chunk of classes; returns compact rows.  Obligations are recorded in I.obls as usual."""
    from .interp import State
    _, kind, lo, hi = variant.split(':')
    lo, hi = int(lo), int(hi)
    rows, bad = [], []
    I.spec.inline_kernel = True
    try:
        if kind == 'd2j':
            for r in range(lo, hi):
                for m in range(1, 13):
                    st = State()
                    a = I.fresh_int(st, 'i32', 'cyc', 0, (10000 - r) // 400)
                    d = I.fresh_int(st, 'u32', 'day', 1, 31)
                    res = I.call_local(st, D2J, [VInt(a.form.scale(400).addc(r), 'i32'), VInt(Form.const(m), 'u32'), d])
                    ok = False
                    if len(res) == 1 and isinstance(res[0][1], VInt):
                        sa, sd = a.form.terms[0][0], d.form.terms[0][0]
                        l = _lin(res[0][1].form, (sa, sd))
                        if l is not None:
                            rows.append((r, m, l[1].get(sa, 0), l[1].get(sd, 0), l[0]))
                            ok = True
                    if not ok:
                        bad.append((r, m, f"{len(res)} exit(s): " + '; '.join(repr(v)[:120] for _, v in res[:2])))
        elif kind == 'doy':
            for r in range(lo, hi):
                for m in range(1, 13):
                    st = State()
                    a = I.fresh_int(st, 'i32', 'cyc', 0, (10000 - r) // 400)
                    d = I.fresh_int(st, 'u32', 'day', 1, 31)
                    res = I.call_local(st, DOY, [VInt(a.form.scale(400).addc(r), 'i32'), VInt(Form.const(m), 'u32'), d])
                    ok = False
                    if len(res) == 1 and isinstance(res[0][1], VInt):
                        sa, sd = a.form.terms[0][0], d.form.terms[0][0]
                        l = _lin(res[0][1].form, (sa, sd))
                        if l is not None:
                            rows.append((r, m, l[1].get(sa, 0), l[1].get(sd, 0), l[0]))
                            ok = True
                    if not ok:
                        bad.append((r, m, f"{len(res)} exit(s): " + '; '.join(repr(v)[:120] for _, v in res[:2])))
        elif kind.startswith('iso'):
            from .values import VAdt
            key = ISO_T if kind.startswith('isot') else ISO_R
            classes = iso_windows()[lo:hi] if kind.endswith('w') else range(lo, hi)
            dty = I.facts.body(key)['locals'][1]['ty']
            for rp in classes:
                clo = -((rp - J_MIN) // CYCLE_DAYS)
                chi = (J_MAX - rp) // CYCLE_DAYS
                if clo > chi:
                    continue
                st = State()
                c = I.fresh_int(st, 'i32', 'cyc', clo, chi)
                sc = c.form.terms[0][0]
                res = I.call_local(st, key, [VAdt(dty, {0: (VInt(c.form.scale(CYCLE_DAYS).addc(rp - E_J), 'i32'),)})])
                exits = []
                ok = True
                for (s2, v) in res:
                    a, b = s2.num.rng(c.form)
                    var = v.single() if isinstance(v, VAdt) else None
                    if var == 0:
                        inner = v.variants[0][0]
                        f = inner.variants[0][0].form if isinstance(inner, VAdt) and inner.single() == 0 else None
                        l = _lin(f, (sc,)) if f is not None else None
                        if l is None:
                            ok = False
                            break
                        exits.append(('ok', l[1].get(sc, 0), l[0] + E_J, a, b))
                    elif var == 1:
                        exits.append(('err', 0, 0, a, b))
                    else:
                        ok = False
                        break
                if ok:
                    rows.append((rp, clo, chi, exits))
                else:
                    bad.append((rp, 0, f"{len(res)} exit(s): " + '; '.join(repr(v)[:160] for _, v in res[:2])))
        else:
            for rp in range(lo, hi):
                clo = -((rp - J_MIN) // CYCLE_DAYS)          # ceil((J_MIN - rp) / CYCLE)
                chi = (J_MAX - rp) // CYCLE_DAYS
                if clo > chi:
                    continue
                st = State()
                c = I.fresh_int(st, 'i32', 'cyc', clo, chi)
                res = I.call_local(st, J2D, [VInt(c.form.scale(CYCLE_DAYS).addc(rp), 'i32')])
                ok = False
                if len(res) == 1 and isinstance(res[0][1], VTuple) and len(res[0][1].elems) == 3:
                    y, m, d = res[0][1].elems
                    sc = c.form.terms[0][0]
                    if all(isinstance(v, VInt) for v in (y, m, d)) and m.form.is_const() and d.form.is_const():
                        l = _lin(y.form, (sc,))
                        if l is not None:
                            rows.append((rp, l[1].get(sc, 0), l[0], m.form.c, d.form.c))
                            ok = True
                if not ok:
                    bad.append((rp, 0, f"{len(res)} exit(s): " + '; '.join(repr(v)[:160] for _, v in res[:2])))
    finally:
        I.spec.inline_kernel = False
    return {'kind': kind, 'lo': lo, 'hi': hi, 'rows': rows, 'bad': bad}


def contract(chunks):
    """C01 contract records from the class tables (pure arithmetic on the constants the analysis produced)"""
    out = []

    def rec(fn, clause, ok, detail=''):
        out.append({'prop': 'C01', 'root': fn, 'clause': clause, 'ok': bool(ok), 'detail': '' if ok else detail})

    C = {}
    lin_bad, shape_bad = [], []
    j2d = []
    covered = {'d2j': 0, 'j2d': 0}
    for ch in chunks:
        for b in ch['bad']:
            shape_bad.append((ch['kind'], b))
        if ch['kind'] == 'd2j':
            for (r, m, ka, kd, c0) in ch['rows']:
                covered['d2j'] += 1
                if ka != CYCLE_DAYS or kd != 1:
                    lin_bad.append((r, m, ka, kd))
                C[(r, m)] = c0
        elif ch['kind'] == 'j2d':
            covered['j2d'] += len(ch['rows'])
            j2d.extend(ch['rows'])
    rec(D2J, 'date2julian: every branch decided and the result linear in each of the 4800 residue classes (year mod 400, month)',
        not [b for k, b in shape_bad if k == 'd2j'] and covered['d2j'] == 4800,
        f"{covered['d2j']} classes analysed; irregular: {[b for k, b in shape_bad if k == 'd2j'][:3]}")
    rec(D2J, 'K-lin: date2julian(400a + r, m, d) = 146097*a + C(r, m) + d', not lin_bad and len(C) == 4800,
        f"classes with other coefficients (r, m, coefficient of a, of d): {lin_bad[:4]}")
    step_bad = []
    if len(C) == 4800:
        for r in range(400):
            for m in range(1, 12):
                if C[(r, m + 1)] - C[(r, m)] != dom(r, m):
                    step_bad.append(f"year = {r} (mod 400): month {m} has {C[(r, m + 1)] - C[(r, m)]} days, the Gregorian rule gives {dom(r, m)}")
            nxt = C[(r + 1, 1)] if r < 399 else C[(0, 1)] + CYCLE_DAYS
            if nxt - C[(r, 12)] != 31:
                step_bad.append(f"year = {r} (mod 400): December has {nxt - C[(r, 12)]} days")
    rec(D2J, 'K-step: consecutive dates have consecutive day numbers (month lengths of the Gregorian rule, year and 400-year cycle close)',
        len(C) == 4800 and not step_bad, '; '.join(step_bad[:4]) or 'table incomplete')
    anchor = (CYCLE_DAYS * 4 + C.get((370, 1), 0) + 1) if (370, 1) in C else None
    rec(D2J, 'K-anchor: 1970-01-01 is Julian day 2440588', anchor == 2440588, f"date2julian(1970, 1, 1) = {anchor}")
    inv_bad = []
    for (rp, ky, y0, m, d) in j2d:
        rr = y0 % 400
        sh = (y0 - rr) // 400
        if ky != 400:
            inv_bad.append(f"class {rp}: year = {ky}*c + {y0}")
        elif not (1 <= m <= 12) or not (1 <= d <= dom(rr, m)):
            inv_bad.append(f"class {rp}: julian2date gives ({y0} + 400c, {m}, {d}), not a date")
        elif (rr, m) not in C or CYCLE_DAYS * sh + C[(rr, m)] + d != rp:
            back = CYCLE_DAYS * sh + C.get((rr, m), 0) + d
            inv_bad.append(f"class {rp}: julian2date gives ({y0} + 400c, {m}, {d}) whose day number is 146097c + {back}")
    rec(J2D, 'julian2date: every branch decided and the result (400c + Y, M, D) constant in each of the 146097 residue classes of the day number',
        not [b for k, b in shape_bad if k == 'j2d'] and covered['j2d'] == CYCLE_DAYS,
        f"{covered['j2d']} classes analysed; irregular: {[b for k, b in shape_bad if k == 'j2d'][:3]}")
    rec(J2D, 'K-inv: julian2date is the inverse of date2julian on every day of 0001-01-01..=9999-12-31', not inv_bad and covered['j2d'] == CYCLE_DAYS,
        '; '.join(inv_bad[:4]) or 'table incomplete')
    out.extend(iso_contract(chunks, C, {r[0]: r for r in j2d}))
    drows = [r for ch in chunks if ch['kind'] == 'doy' for r in ch['rows']]
    dbad = [b for ch in chunks if ch['kind'] == 'doy' for b in ch['bad']]
    if drows or dbad:
        wrong = []
        for (r, m, ka, kd, c0) in drows:
            want = sum(dom(r, k) for k in range(1, m))
            if ka != 0 or kd != 1 or c0 != want:
                wrong.append(f"year = {r} (mod 400), month {m}: day of year = {ka}*a + {kd}*day + {c0}, the calendar gives day + {want}")
        rec(DOY, 'the_day_of_year: day + the lengths of the preceding months of that year, in each of the 4800 classes (year mod 400, month)',
            not wrong and not dbad and len(drows) == 4800, '; '.join(wrong[:4]) or f"{len(drows)} classes, irregular {dbad[:2]}")
    return out


def iso_contract(chunks, C, j2d):
    """C10 / C11, ISO year: per residue class the result of trunc_iso_year / round_iso_year is 146097*c + const; the constant is
    compared with the ISO-year starts computed here from the (validated) day-number table:
    start(Y) = Monday on or before 4 January of year Y."""
    out = []

    def rec(prop, fn, clause, ok, detail=''):
        out.append({'prop': prop, 'root': fn, 'clause': clause, 'ok': bool(ok), 'detail': '' if ok else detail})

    def start(y0):
        rr = y0 % 400
        q = (y0 - rr) // 400
        o = CYCLE_DAYS * q + C[(rr, 1)] + 4
        return o - (o % 7)

    for kind, key, prop in (('isot', ISO_T, 'C10'), ('isor', ISO_R, 'C11')):
        rows = [r for ch in chunks if ch['kind'].startswith(kind) for r in ch['rows']]
        badshape = [b for ch in chunks if ch['kind'].startswith(kind) for b in ch['bad']]
        if not rows and not badshape:
            continue
        full = any(ch['kind'] == kind for ch in chunks)
        scope = 'every day of the 400-year cycle' if full else 'every day within a week of a 1 January or next to a 1 July of the 400-year cycle'
        name = key.split('::')[-1]
        wrong = []
        if len(C) != 4800:
            wrong.append('day-number table incomplete')
        else:
            for (rp, clo, chi, exits) in rows:
                jr = j2d.get(rp)
                if jr is None:
                    wrong.append(f"class {rp}: no calendar date")
                    continue
                _, _, y0, m, d = jr
                cands = [start(y0 - 1), start(y0), start(y0 + 1)]
                trunc = max(b for b in cands if b <= rp)
                up = kind == 'isor' and m >= 7
                want = start(y0 + 1) if up else trunc
                cov = set()
                for (k, coef, off, a, b) in exits:
                    cov.update(range(a, b + 1))
                    years = [400 * cc + y0 for cc in range(a, b + 1)]
                    if k == 'ok':
                        if coef != CYCLE_DAYS or off != want:
                            wrong.append(f"{y0 % 400:03d}-{m:02d}-{d:02d} (year mod 400, class {rp}): result is day {off - rp:+d} relative to the input, the rule gives {want - rp:+d}")
                        elif up and 9999 in years:
                            wrong.append(f"class {rp}: year 9999 from July on must fail (the next ISO year starts after the maximum date)")
                    else:
                        if not (up and years == [9999]):
                            wrong.append(f"class {rp} ({y0 % 400:03d}-{m:02d}-{d:02d}): fails for years {years[:3]}.. although the boundary is in range")
                if cov != set(range(clo, chi + 1)):
                    wrong.append(f"class {rp}: exits do not cover every 400-year cycle")
        rec(prop, key, f"{name}: every branch decided, result 146097*c + constant in each analysed residue class", not badshape, f"irregular: {badshape[:3]}")
        if kind == 'isot':
            rec(prop, key, f"{name}: the latest ISO-year start (Monday on or before 4 January) not after the input, for {scope}", not wrong and rows, '; '.join(wrong[:4]))
        else:
            rec(prop, key, f"{name}: before July the truncation, from July on the start of the following ISO year (failing only for year 9999), for {scope}",
                not wrong and rows, '; '.join(wrong[:4]))
        rec(prop, key, f"{name}: classes analysed ({'all 146097' if full else 'windows'})", len(rows) >= (CYCLE_DAYS if full else 7000), f"{len(rows)} classes")
    return out
