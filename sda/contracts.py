"""R-ens: the contract catalogue of DESIGN.md Appendix A, evaluated on the exit states of a root.

Every contract is written from the property statements in terms of the *counts* of the
arguments (day / month / microsecond representation) and is checked on every exit state
engine E1 produced for the root:

  gate_T(e):  Ok(v) exits have count(v) == e ;  Err exits carry the type's range error and the
              state proves e outside inv(T)  ("succeeds exactly when the exact result is in range")
  exact(e):   the returned count is e on every exit
  congruence / remainder characterisations for floor, wrap, truncation and rounding.

A contract yields records (prop, clause, ok, detail).  No contract -> nothing claimed for that root.
"""
from __future__ import annotations

import re

from .lin import SYMTAB, Form
from .spec import D_US, H_US, INV, MI_US, S_US, UNIX_EPOCH_JULIAN
from .values import VAdt, VBool, VFloat, VInt, VTuple, VOpaque, VRef

OK, ERR = 0, 1
NONE, SOME = 0, 1

RANGE_ERR = {
    'date::Date': 'DateOutOfRange',
    'timestamp::Timestamp': 'DateOutOfRange',
    'oracle::Date': 'DateOutOfRange',
    'time::Time': 'TimeOutOfRange',
    'interval::IntervalYM': 'IntervalOutOfRange',
    'interval::IntervalDT': 'IntervalOutOfRange',
}


class Ctx:
    def __init__(self, I, key, args, exits, variant=None):
        self.I = I
        self.variant = variant
        self.key = key
        self.args = args
        self.exits = exits
        self.facts = I.facts
        self.out = []

    def rec(self, prop, clause, ok, detail=''):
        self.out.append({'prop': prop, 'root': self.key, 'clause': clause, 'ok': bool(ok), 'detail': detail if not ok else ''})

    # ---- value helpers
    def adt_def(self, v):
        if isinstance(v, VAdt):
            return self.facts.types.get(v.ty, {}).get('def')
        return None

    def count(self, v):
        """count Form of a value of one of the six types (or of an integer)"""
        if isinstance(v, VRef):
            return None
        if isinstance(v, VInt):
            return v.form
        if isinstance(v, VAdt) and self.adt_def(v) in INV:
            f = v.variants[0][0]
            if isinstance(f, VAdt):
                f = f.variants[0][0]
            return f.form if isinstance(f, VInt) else None
        return None

    def arg(self, i):
        v = self.args[i]
        if isinstance(v, VRef):
            st0 = self.exits[0][0] if self.exits else None
            v = self.I.load(st0, v.root, v.path) if st0 is not None else v
        return v

    def argc(self, i):
        return self.count(self.arg(i))

    def err_name(self, v):
        if isinstance(v, VAdt) and self.adt_def(v) == 'error::Error' and v.single() is not None:
            t = self.facts.types[v.ty]
            return [x['name'] for x in t['variants'] if x['idx'] == v.single()][0]
        return None

    def split_result(self, ret):
        """-> ('ok', value) | ('err', name) | ('other', ret)"""
        if isinstance(ret, VAdt) and (self.adt_def(ret) or '').endswith('result::Result') and ret.single() is not None:
            if ret.single() == OK:
                return 'ok', ret.variants[OK][0]
            return 'err', self.err_name(ret.variants[ERR][0])
        return 'other', ret

    # ---- contract forms
    def gate(self, prop, clause, tdef, expected, errname=None, pre_errors=()):
        """gate_T(expected).  pre_errors: error names that may be returned before the gate (field checks)"""
        lo, hi, mod, rem = INV[tdef]
        errname = errname or RANGE_ERR[tdef]
        n_ok = 0
        for (st, ret) in self.exits:
            kind, v = self.split_result(ret)
            if kind == 'ok':
                n_ok += 1
                c = self.count(v)
                e = expected(st) if callable(expected) else expected
                good = c is not None and (c == e or st.num.eq0(c.sub(e)))
                self.rec(prop, f"{clause}: Ok value is the exact result", good, f"returned {c!r}, expected {e!r}")
            elif kind == 'err':
                if v in pre_errors:
                    continue
                e = expected(st) if callable(expected) else expected
                a, b = st.num.rng2(e)
                out = b < lo or a > hi
                if not out and mod > 1:
                    r = st.num.residue(e, mod)
                    out = (r is not None and r != rem) or st.num.known_nonzero(_rem_form(st, e, mod))
                self.rec(prop, f"{clause}: Err only when the exact result is out of range", v == errname and out,
                         f"error {v} with exact result {e!r} in [{a}, {b}] (range [{lo}, {hi}])")
            else:
                self.rec(prop, f"{clause}: result shape", False, f"{ret!r}")
        self.rec(prop, f"{clause}: some path returns Ok", n_ok > 0, 'no Ok exit found')

    def exact(self, prop, clause, expected):
        for (st, ret) in self.exits:
            kind, v = self.split_result(ret)
            if kind == 'ok':
                ret = v
            c = self.count(ret)
            e = expected(st) if callable(expected) else expected
            good = c is not None and (c == e or st.num.eq0(c.sub(e)))
            self.rec(prop, clause, good, f"returned {c!r}, expected {e!r}")
        self.rec(prop, f"{clause}: has exits", len(self.exits) > 0, 'no exit state')


def _rem_form(st, e: Form, m: int) -> Form:
    lo, hi = st.num.rng(e)
    from .lin import tdiv
    q = SYMTAB.div(e, m, -(1 << 130), 1 << 130)     # shared symbol: path-independent static range
    st.num.note_div(q)
    return e.sub(Form.sym(q, m))


def F(c):
    return Form.const(c)


CONTRACTS = []


def contract(pattern):
    def deco(fn):
        CONTRACTS.append((re.compile(pattern), fn))
        return fn
    return deco


# ----------------------------------------------------------------------------- C08: day / microsecond arithmetic
@contract(r'^date::Date::add_days$')
def _(c):
    c.gate('C08', 'Date::add_days = gate_Date(d + n)', 'date::Date', c.argc(0).add(c.argc(1)))


@contract(r'^date::Date::sub_days$')
def _(c):
    c.gate('C08', 'Date::sub_days = gate_Date(d - n)', 'date::Date', c.argc(0).sub(c.argc(1)))


@contract(r'^date::Date::sub_date$')
def _(c):
    c.exact('C08', 'Date::sub_date = d(a) - d(b)', c.argc(0).sub(c.argc(1)))


@contract(r'^date::Date::add_interval_dt$')
def _(c):
    c.gate('C08', 'Date::add_interval_dt = gate_Timestamp(D*d + i)', 'timestamp::Timestamp', c.argc(0).scale(D_US).add(c.argc(1)))


@contract(r'^date::Date::sub_interval_dt$')
def _(c):
    c.gate('C08', 'Date::sub_interval_dt = gate_Timestamp(D*d - i)', 'timestamp::Timestamp', c.argc(0).scale(D_US).sub(c.argc(1)))


@contract(r'^date::Date::(add_time|and_time)$')
def _(c):
    c.exact('C08', 'Date::add_time/and_time = D*d + t', c.argc(0).scale(D_US).add(c.argc(1)))


@contract(r'^date::Date::sub_time$')
def _(c):
    c.gate('C08', 'Date::sub_time = gate_Timestamp(D*d - t)', 'timestamp::Timestamp', c.argc(0).scale(D_US).sub(c.argc(1)))


@contract(r'^date::Date::sub_timestamp$')
def _(c):
    c.exact('C08', 'Date::sub_timestamp = D*d - ts', c.argc(0).scale(D_US).sub(c.argc(1)))


@contract(r'^timestamp::Timestamp::add_interval_dt$')
def _(c):
    c.gate('C08', 'Timestamp::add_interval_dt = gate(u + i)', 'timestamp::Timestamp', c.argc(0).add(c.argc(1)))


@contract(r'^timestamp::Timestamp::sub_interval_dt$')
def _(c):
    c.gate('C08', 'Timestamp::sub_interval_dt = gate(u - i)', 'timestamp::Timestamp', c.argc(0).sub(c.argc(1)))


@contract(r'^(timestamp::Timestamp|oracle::Date)::add_time$')
def _(c):
    c.gate('C08', 'add_time = gate_Timestamp(u + t)', 'timestamp::Timestamp', c.argc(0).add(c.argc(1)))


@contract(r'^(timestamp::Timestamp|oracle::Date)::sub_time$')
def _(c):
    c.gate('C08', 'sub_time = gate_Timestamp(u - t)', 'timestamp::Timestamp', c.argc(0).sub(c.argc(1)))


@contract(r'^timestamp::Timestamp::sub_date$')
def _(c):
    c.exact('C08', 'Timestamp::sub_date = u - D*d', c.argc(0).sub(c.argc(1).scale(D_US)))


@contract(r'^(timestamp::Timestamp::sub_timestamp|oracle::Date::sub_timestamp|oracle::<impl timestamp::Timestamp>::oracle_sub_date)$')
def _(c):
    c.exact('C08', 'sub_timestamp = u(a) - u(b)', c.argc(0).sub(c.argc(1)))


@contract(r'^interval::IntervalYM::add_interval_ym$')
def _(c):
    c.gate('C08', 'IntervalYM::add = gate(m + m2)', 'interval::IntervalYM', c.argc(0).add(c.argc(1)))


@contract(r'^interval::IntervalYM::sub_interval_ym$')
def _(c):
    c.gate('C08', 'IntervalYM::sub = gate(m - m2)', 'interval::IntervalYM', c.argc(0).sub(c.argc(1)))


@contract(r'^interval::IntervalDT::add_interval_dt$')
def _(c):
    c.gate('C08', 'IntervalDT::add = gate(u + u2)', 'interval::IntervalDT', c.argc(0).add(c.argc(1)))


@contract(r'^interval::IntervalDT::sub_interval_dt$')
def _(c):
    c.gate('C08', 'IntervalDT::sub = gate(u - u2)', 'interval::IntervalDT', c.argc(0).sub(c.argc(1)))


@contract(r'^interval::IntervalDT::sub_time$')
def _(c):
    c.gate('C08', 'IntervalDT::sub_time = gate(u - t)', 'interval::IntervalDT', c.argc(0).sub(c.argc(1)))


@contract(r'^date::Date::try_from_days$')
def _(c):
    c.gate('C01', 'Date::try_from_days = gate_Date(n)', 'date::Date', c.argc(0))


@contract(r'^time::Time::try_from_usecs$')
def _(c):
    c.gate('C07', 'Time::try_from_usecs = gate_Time(n)', 'time::Time', c.argc(0))


@contract(r'^timestamp::Timestamp::try_from_usecs$')
def _(c):
    c.gate('C08', 'Timestamp::try_from_usecs = gate(n)', 'timestamp::Timestamp', c.argc(0))


@contract(r'^interval::IntervalYM::try_from_months$')
def _(c):
    c.gate('C13', 'IntervalYM::try_from_months = gate(n)', 'interval::IntervalYM', c.argc(0))


@contract(r'^interval::IntervalDT::try_from_usecs$')
def _(c):
    c.gate('C13', 'IntervalDT::try_from_usecs = gate(n)', 'interval::IntervalDT', c.argc(0))


@contract(r'^oracle::Date::try_from_usecs$')
def _(c):
    c.gate('C16', 'OracleDate::try_from_usecs: Ok iff in range and on a whole second', 'oracle::Date', c.argc(0))


# fractional days: gate(u + cast(round(f * D)))
def _float_days_structure(c, sign):
    """the value added to the count is f2i(round(mul(days, i2f(D)))) with days possibly negated"""
    for (st, ret) in c.exits:
        kind, v = c.split_result(ret)
        if kind != 'ok':
            continue
        cnt = c.count(v)
        d = cnt.sub(c.argc(0))
        good = False
        why = f"added amount {d!r}"
        if len(d.terms) == 1 and d.c == 0 and d.terms[0][1] == 1:
            data = SYMTAB.syms[d.terms[0][0]].data
            if data and data[0] == 'f2i':
                ex = data[1]
                why = f"cast of {ex}"
                if ex and ex[0] == 'round' and ex[1] and ex[1][0] == 'mul':
                    ops = [ex[1][1], ex[1][2]]
                    day_ok = any(o == ('param', 'days') for o in ops) if sign > 0 else any(o == ('neg', ('param', 'days')) for o in ops)
                    unit_ok = any(o and o[0] == 'i2f' and o[1] == F(D_US) for o in ops)
                    good = day_ok and unit_ok
        c.rec('C08', 'fractional days: u + cast(round(days * D)) (round between product and cast)', good, why)


@contract(r'^timestamp::Timestamp::add_days$')
def _(c):
    _float_days_structure(c, +1)


@contract(r'^timestamp::Timestamp::sub_days$')
def _(c):
    _float_days_structure(c, -1)


# ----------------------------------------------------------------------------- C07: timestamp = (date, time); time fields
@contract(r'^timestamp::Timestamp::new$')
def _(c):
    c.exact('C07', 'Timestamp::new = D*d + t', c.argc(0).scale(D_US).add(c.argc(1)))


@contract(r'^(timestamp::Timestamp|oracle::Date)::extract$')
def _(c):
    u = c.argc(0)
    for (st, ret) in c.exits:
        d, t = ret.elems
        dc, tc = c.count(d), c.count(t)
        tot = dc.scale(D_US).add(tc)
        c.rec('C07', 'extract: D*date + time == count', st.num.eq0(tot.sub(u)), f"D*{dc!r} + {tc!r} vs {u!r}")
        a, b = st.num.rng(tc)
        c.rec('C07', 'extract: time part in [0, D)', a >= 0 and b < D_US, f"time in [{a}, {b}]")
    c.rec('C07', 'extract: has exits', len(c.exits) > 0)


@contract(r'^time::Time::extract$')
def _(c):
    t = c.argc(0)
    for (st, ret) in c.exits:
        h, mi, s, us = [x.form for x in ret.elems]
        tot = h.scale(H_US).add(mi.scale(MI_US)).add(s.scale(S_US)).add(us)
        c.rec('C07', 'Time::extract: H*h + Mi*m + S*s + us == count', st.num.eq0(tot.sub(t)), f"{tot!r} vs {t!r}")
        rs = [st.num.rng(x) for x in (h, mi, s, us)]
        ok = rs[0][0] >= 0 and rs[0][1] < 24 and rs[1][0] >= 0 and rs[1][1] < 60 and rs[2][0] >= 0 and rs[2][1] < 60 \
            and rs[3][0] >= 0 and rs[3][1] < 1_000_000
        c.rec('C07', 'Time::extract: field ranges', ok, f"{rs}")
    c.rec('C07', 'Time::extract: has exits', len(c.exits) > 0)


def _hms_list(c, prop, name, with_usec, value_of=None, bool_result=False, unit_result=False, extra_first=None, base=0):
    """decision list L_hms evaluated abstractly in every exit state"""
    for (st, ret) in c.exits:
        h, mi, s = [c.args[i].form for i in range(base, base + 3)]
        us = c.args[base + 3].form if with_usec else None
        spec = [(('cmp', 'ge', h, F(24)), 'TimeOutOfRange'), (('cmp', 'ge', mi, F(60)), 'InvalidMinute'),
                (('cmp', 'ge', s, F(60)), 'InvalidSecond')]
        if with_usec:
            spec.append((('cmp', 'gt', us, F(999_999)), 'InvalidFraction'))
        expect = None
        for p, e in spec:
            d = c.I.decide(st, p, deep=True)
            if d is None:
                expect = '?'
                break
            if d:
                expect = e
                break
        if bool_result:
            got = 'accept' if (isinstance(ret, VBool) and ret.val is True) else ('reject' if isinstance(ret, VBool) and ret.val is False else '?')
            want = 'accept' if expect is None else ('reject' if expect != '?' else '?')
            c.rec(prop, f"{name}: decision list = L_hms", got == want and got != '?', f"state gives {got}, spec gives {want}")
            continue
        kind, v = c.split_result(ret)
        if kind == 'err':
            c.rec(prop, f"{name}: decision list = L_hms", v == expect, f"returned {v}, spec gives {expect}")
        elif kind == 'ok':
            c.rec(prop, f"{name}: decision list = L_hms", expect is None, f"accepted where spec gives {expect}")
            if value_of is not None:
                e = value_of(h, mi, s, us)
                cnt = c.count(v)
                c.rec(prop, f"{name}: value = H*h + Mi*m + S*s + us", cnt is not None and st.num.eq0(cnt.sub(e)), f"{cnt!r} vs {e!r}")
        else:
            c.rec(prop, f"{name}: result shape", False, f"{ret!r}")
    c.rec(prop, f"{name}: has exits", len(c.exits) > 0)


@contract(r'^time::Time::try_from_hms$')
def _(c):
    _hms_list(c, 'C07', 'Time::try_from_hms', True,
              lambda h, mi, s, us: h.scale(H_US).add(mi.scale(MI_US)).add(s.scale(S_US)).add(us))


@contract(r'^date::Date::and_hms$')
def _(c):
    d = c.argc(0)
    _hms_list(c, 'C07', 'Date::and_hms', True,
              lambda h, mi, s, us: d.scale(D_US).add(h.scale(H_US)).add(mi.scale(MI_US)).add(s.scale(S_US)).add(us), base=1)


def _floor_parts(c, st, u, k):
    """case split of u into k*q + r with 0 <= r < k (floor): list of (state, q, r)"""
    out = []
    uu = VInt(u, 'i64')
    kk = VInt(F(k), 'i64')
    for s2 in c.I.assume(st.copy(), ('cmp', 'ge', u, F(0)), True):
        q = c.I.int_binop(s2, 'Div', uu, kk, 'i64')
        out.append((s2, q, u.sub(q.scale(k))))
    for s2 in c.I.assume(st.copy(), ('cmp', 'lt', u, F(0)), True):
        q = c.I.int_binop(s2, 'Div', uu, kk, 'i64')
        r = u.sub(q.scale(k))
        for s3 in c.I.assume(s2.copy(), ('cmp', 'eq', r, F(0)), True):
            out.append((s3, q, r))
        for s3 in c.I.assume(s2.copy(), ('cmp', 'lt', r, F(0)), True):
            out.append((s3, q.addc(-1), r.addc(k)))
    return out


@contract(r'^<(timestamp::Timestamp|oracle::Date) as DateTime>::(year|month|day|hour|minute)$')
def _(c):
    """the accessors report the fields of the (date, time) pair of extract(): date = floor(u / D), time = u - D*date"""
    u = c.argc(0)
    what = c.key.rsplit('::', 1)[1]
    name = f"DateTime for {c.key[1:].split(' as ')[0]}: {what}"
    n = 0
    for (st, ret) in c.exits:
        v = ret.variants.get(SOME) if isinstance(ret, VAdt) else None
        if v is None or len(ret.variants) != 1 or not isinstance(v[0], VInt):
            c.rec('C07', f"{name}: Some(field)", False, f"{ret!r}")
            continue
        f = v[0].form
        for (s2, q, r) in _floor_parts(c, st, u, D_US):
            n += 1
            if what in ('year', 'month', 'day'):
                ok, why = False, f"{f!r} is not the {what} of a calendar decomposition"
                if len(f.terms) == 1 and f.c == 0 and f.terms[0][1] == 1:
                    info = SYMTAB.syms[f.terms[0][0]]
                    if info.kind == 'opaque' and info.data and info.data[0] == what:
                        x = Form(info.data[1][0], info.data[1][1])           # the Julian day that was decomposed
                        ok = s2.num.eq0(x.addc(-E_J).sub(q))
                        why = f"{what} of day {x.addc(-E_J)!r}, the date of the pair is floor(u / D) = {q!r}"
                c.rec('C07', f"{name} of the date part floor(u / D)", ok, why)
            else:
                rr = VInt(r, 'i64')
                if what == 'hour':
                    e = c.I.int_binop(s2, 'Div', rr, VInt(F(H_US), 'i64'), 'i64')
                else:
                    m_ = c.I.int_binop(s2, 'Rem', rr, VInt(F(H_US), 'i64'), 'i64')
                    e = c.I.int_binop(s2, 'Div', VInt(m_, 'i64'), VInt(F(MI_US), 'i64'), 'i64')
                c.rec('C07', f"{name} of the time part u - D*floor(u / D)", s2.num.eq0(f.sub(e)), f"{f!r} vs {e!r}")
    c.rec('C07', f"{name}: has exits", n > 0)


@contract(r'^time::Time::is_valid$')
def _(c):
    _hms_list(c, 'C07', 'Time::is_valid', True, bool_result=True)


@contract(r'^<time::Time as DateTime>::(hour|minute)$')
def _(c):
    t = c.argc(0)
    for (st, ret) in c.exits:
        v = ret.variants.get(SOME)
        ok = v is not None and len(ret.variants) == 1
        if ok:
            f = v[0].form
            if c.key.endswith('hour'):
                e = c.I.int_binop(st, 'Div', VInt(t, 'i64'), VInt(F(H_US), 'i64'), 'i64')
            else:
                r = c.I.int_binop(st, 'Rem', VInt(t, 'i64'), VInt(F(H_US), 'i64'), 'i64')
                e = c.I.int_binop(st, 'Div', VInt(r, 'i64'), VInt(F(MI_US), 'i64'), 'i64')
            ok = st.num.eq0(f.sub(e))
        c.rec('C07', 'DateTime for Time: hour = u / H, minute = (u % H) / Mi', ok, f"{ret!r}")


# ----------------------------------------------------------------------------- C12: time of day wraps modulo 24h
def _time_wrap(c, sign):
    t, i = c.argc(0), c.argc(1)
    e = t.add(i) if sign > 0 else t.sub(i)
    for (st, ret) in c.exits:
        r = c.count(ret)
        res = st.num.residue(r.sub(e), D_US)
        c.rec('C12', f"Time {'+' if sign > 0 else '-'} IntervalDT: result = t {'+' if sign > 0 else '-'} i (mod 24h)", res == 0,
              f"result {r!r} - ({e!r}) has residue {res} mod D")
        a, b = st.num.rng2(r)
        c.rec('C12', 'Time +/- IntervalDT: result in [0, 24h)', a >= 0 and b < D_US, f"[{a}, {b}]")
    c.rec('C12', 'Time +/- IntervalDT: has exits', len(c.exits) > 0)


@contract(r'^time::Time::add_interval_dt$')
def _(c):
    _time_wrap(c, +1)


@contract(r'^time::Time::sub_interval_dt$')
def _(c):
    _time_wrap(c, -1)


@contract(r'^time::Time::sub_time$')
def _(c):
    c.exact('C12', 'Time::sub_time = u(a) - u(b)', c.argc(0).sub(c.argc(1)))


@contract(r'^<time::Time as std::convert::From<interval::IntervalDT>>::from$')
def _(c):
    i = c.argc(0)
    for (st, ret) in c.exits:
        r = c.count(ret)
        lo, hi = st.num.rng(i)
        if lo >= 0:
            res = st.num.residue(r.sub(i), D_US)
        elif hi <= 0:
            res = st.num.residue(r.add(i), D_US)
        else:
            res = None
        c.rec('C12', 'Time::from(IntervalDT) = |i| mod 24h', res == 0, f"result {r!r} for interval in [{lo}, {hi}]: residue {res}")
        a, b = st.num.rng2(r)
        c.rec('C12', 'Time::from(IntervalDT) in [0, 24h)', a >= 0 and b < D_US, f"[{a}, {b}]")


@contract(r'^<interval::IntervalDT as std::convert::From<time::Time>>::from$')
def _(c):
    c.exact('C12', 'IntervalDT::from(Time) = u(t)', c.argc(0))


def _cmp_counts(c, prop, left, right):
    """eq / partial_cmp between two values compares left(count) with right(count), receiver from self"""
    if c.key.endswith('::eq'):
        for (st, ret) in getattr(c, 'raw_exits', c.exits):
            ok = False
            why = f"{ret!r}"
            if isinstance(ret, VBool):
                p = ret.pred
                if ret.val is not None and p is None:
                    p = None
                if p is not None and p[0] == 'cmp' and p[1] == 'eq':
                    ok = (p[2] == left and p[3] == right) or (p[2] == right and p[3] == left)
                    why = f"compares {p[2]!r} == {p[3]!r}; expected {left!r} == {right!r}"
            c.rec(prop, 'mixed eq compares the converted counts', ok, why)
    else:
        evs = [e for e in c.I.events if e[0] == 'cmp']
        ok = len(evs) >= 1 and all(e[2] == left and e[3] == right for e in evs)
        why = '; '.join(f"{e[2]!r} cmp {e[3]!r}" for e in evs) + f" expected {left!r} cmp {right!r}"
        if not ok and not evs:
            # no Ord::cmp at all (an explicit `<` / `>` chain): decided semantically - every exit returns Some(o) with o the one
            # ordering that the exit state forces for left - right
            forced = _forced_orderings(c, left.sub(right))
            if forced is not None:
                ok, why = forced
        c.rec(prop, 'mixed partial_cmp compares converted counts, receiver from self', ok, why)


def _forced_orderings(c, diff):
    seen = set()
    exits = getattr(c, 'raw_exits', c.exits)
    if not exits:
        return None
    for (st, ret) in exits:
        if not isinstance(ret, VAdt):
            return None
        names = {v['idx']: v['name'] for v in c.facts.types.get(ret.ty, {}).get('variants', [])}
        if set(names.values()) != {'None', 'Some'} or len(ret.variants) != 1:
            return None
        k = next(iter(ret.variants))
        if names[k] != 'Some':
            return False, 'an exit returns None (incomparable)'
        o = ret.variants[k][0]
        if not isinstance(o, VAdt) or len(o.variants) != 1:
            return None
        on = {v['idx']: v['name'] for v in c.facts.types.get(o.ty, {}).get('variants', [])}
        got = on.get(next(iter(o.variants)))
        lo, hi = st.num.rng(diff)
        want = 'Less' if hi < 0 else 'Greater' if lo > 0 else 'Equal' if lo == hi == 0 else None
        if want is None:
            return None
        if got != want:
            return False, f"an exit returns {got} where left - right lies in [{lo}, {hi}]"
        seen.add(got)
    if seen != {'Less', 'Equal', 'Greater'}:
        return None
    return True, ''


@contract(r'^<time::Time as std::cmp::Partial(Eq|Ord)<interval::IntervalDT>>::(eq|partial_cmp)$')
def _(c):
    _cmp_counts(c, 'C12', c.argc(0), c.argc(1))


@contract(r'^<interval::IntervalDT as std::cmp::Partial(Eq|Ord)<time::Time>>::(eq|partial_cmp)$')
def _(c):
    _cmp_counts(c, 'C12', c.argc(0), c.argc(1))


# ----------------------------------------------------------------------------- C17: mixed comparisons of the date-like types
@contract(r'^<date::Date as std::cmp::Partial(Eq|Ord)<timestamp::Timestamp>>::(eq|partial_cmp)$')
def _(c):
    _cmp_counts(c, 'C17', c.argc(0).scale(D_US), c.argc(1))


@contract(r'^<timestamp::Timestamp as std::cmp::Partial(Eq|Ord)<date::Date>>::(eq|partial_cmp)$')
def _(c):
    _cmp_counts(c, 'C17', c.argc(0), c.argc(1).scale(D_US))


@contract(r'^oracle::<impl std::cmp::Partial(Eq|Ord)<oracle::Date> for timestamp::Timestamp>::(eq|partial_cmp)$')
def _(c):
    _cmp_counts(c, 'C17', c.argc(0), c.argc(1))


@contract(r'^<oracle::Date as std::cmp::Partial(Eq|Ord)<timestamp::Timestamp>>::(eq|partial_cmp)$')
def _(c):
    _cmp_counts(c, 'C17', c.argc(0), c.argc(1))


@contract(r'^oracle::<impl std::cmp::Partial(Eq|Ord)<oracle::Date> for date::Date>::(eq|partial_cmp)$')
def _(c):
    _cmp_counts(c, 'C17', c.argc(0).scale(D_US), c.argc(1))


@contract(r'^<oracle::Date as std::cmp::Partial(Eq|Ord)<date::Date>>::(eq|partial_cmp)$')
def _(c):
    _cmp_counts(c, 'C17', c.argc(0), c.argc(1).scale(D_US))


@contract(r'^<timestamp::Timestamp as std::convert::From<date::Date>>::from$')
def _(c):
    c.exact('C17', 'Timestamp::from(Date) = D*d', c.argc(0).scale(D_US))


@contract(r'^oracle::<impl std::convert::From<oracle::Date> for timestamp::Timestamp>::from$')
def _(c):
    c.exact('C17', 'Timestamp::from(OracleDate) = u', c.argc(0))


# ----------------------------------------------------------------------------- C13: interval decomposition
@contract(r'^interval::IntervalYM::extract$')
def _(c):
    m = c.argc(0)
    for (st, ret) in c.exits:
        sign, y, mo = ret.elems
        lo, hi = st.num.rng(m)
        mag = m if lo >= 0 else (m.neg() if hi < 0 else None)
        if mag is None:
            c.rec('C13', 'IntervalYM::extract: sign decided on the path', False, f"m in [{lo}, {hi}]")
            continue
        tot = y.form.scale(12).add(mo.form)
        c.rec('C13', 'IntervalYM::extract: 12*year + month == |m|', st.num.eq0(tot.sub(mag)), f"{tot!r} vs {mag!r}")
        a, b = st.num.rng2(mo.form)
        c.rec('C13', 'IntervalYM::extract: month in 0..=11', a >= 0 and b <= 11, f"[{a}, {b}]")
        t = c.facts.types[sign.ty]
        nm = [x['name'] for x in t['variants'] if x['idx'] == sign.single()][0]
        c.rec('C13', 'IntervalYM::extract: sign is Negative iff m < 0', (nm == 'Negative') == (hi < 0), f"{nm} for m in [{lo}, {hi}]")
    c.rec('C13', 'IntervalYM::extract: has exits', len(c.exits) > 0)


@contract(r'^interval::IntervalDT::extract$')
def _(c):
    u = c.argc(0)
    for (st, ret) in c.exits:
        sign, d, h, mi, s, us = ret.elems
        lo, hi = st.num.rng(u)
        mag = u if lo >= 0 else (u.neg() if hi < 0 else None)
        if mag is None:
            c.rec('C13', 'IntervalDT::extract: sign decided on the path', False, f"u in [{lo}, {hi}]")
            continue
        tot = d.form.scale(D_US).add(h.form.scale(H_US)).add(mi.form.scale(MI_US)).add(s.form.scale(S_US)).add(us.form)
        c.rec('C13', 'IntervalDT::extract: D*d + H*h + Mi*m + S*s + us == |u|', st.num.eq0(tot.sub(mag)), f"{tot!r} vs {mag!r}")
        rs = [st.num.rng2(x.form) for x in (h, mi, s, us)]
        ok = rs[0][0] >= 0 and rs[0][1] < 24 and rs[1][0] >= 0 and rs[1][1] < 60 and rs[2][0] >= 0 and rs[2][1] < 60 \
            and rs[3][0] >= 0 and rs[3][1] < 1_000_000
        c.rec('C13', 'IntervalDT::extract: field ranges', ok, f"{rs}")
        t = c.facts.types[sign.ty]
        nm = [x['name'] for x in t['variants'] if x['idx'] == sign.single()][0]
        c.rec('C13', 'IntervalDT::extract: sign is Negative iff u < 0', (nm == 'Negative') == (hi < 0), f"{nm} for u in [{lo}, {hi}]")
    c.rec('C13', 'IntervalDT::extract: has exits', len(c.exits) > 0)


@contract(r'^(interval::IntervalYM::negate|<interval::IntervalYM as std::ops::Neg>::neg|interval::IntervalDT::negate|<interval::IntervalDT as std::ops::Neg>::neg)$')
def _(c):
    c.exact('C13', 'negation = -x', c.argc(0).neg())


def _ym_list(c, name, bool_result):
    for (st, ret) in c.exits:
        y, mo = c.args[0].form, c.args[1].form
        MAXY = 178_000_000
        spec = [(('or', ('cmp', 'gt', y, F(MAXY)), ('and', ('cmp', 'eq', y, F(MAXY)), ('cmp', 'ne', mo, F(0)))), 'IntervalOutOfRange'),
                (('cmp', 'ge', mo, F(12)), 'InvalidMonth')]
        expect = None
        for p, e in spec:
            d = c.I.decide(st, p, deep=True)
            if d is None:
                expect = '?'
                break
            if d:
                expect = e
                break
        if bool_result:
            got = 'accept' if (isinstance(ret, VBool) and ret.val is True) else ('reject' if isinstance(ret, VBool) and ret.val is False else '?')
            want = 'accept' if expect is None else ('reject' if expect != '?' else '?')
            c.rec('C13', f"{name}: decision list = L_ym", got == want and got != '?', f"state gives {got}, spec gives {want}")
            continue
        kind, v = c.split_result(ret)
        if kind == 'err':
            c.rec('C13', f"{name}: decision list = L_ym", v == expect, f"returned {v}, spec gives {expect}")
        elif kind == 'ok':
            c.rec('C13', f"{name}: decision list = L_ym", expect is None, f"accepted where spec gives {expect}")
            cnt = c.count(v)
            e = y.scale(12).add(mo)
            c.rec('C13', f"{name}: value = 12*y + m", st.num.eq0(cnt.sub(e)), f"{cnt!r} vs {e!r}")
    c.rec('C13', f"{name}: has exits", len(c.exits) > 0)


@contract(r'^interval::IntervalYM::try_from_ym$')
def _(c):
    _ym_list(c, 'IntervalYM::try_from_ym', False)


@contract(r'^interval::IntervalYM::is_valid_ym$')
def _(c):
    _ym_list(c, 'IntervalYM::is_valid_ym', True)


def _dhms_list(c, name, bool_result):
    MAXD = 100_000_000
    for (st, ret) in c.exits:
        d, h, mi, s, us = [a.form for a in c.args[:5]]
        nz = ('or', ('cmp', 'ne', h, F(0)), ('or', ('cmp', 'ne', mi, F(0)), ('or', ('cmp', 'ne', s, F(0)), ('cmp', 'ne', us, F(0)))))
        spec = [(('or', ('cmp', 'gt', d, F(MAXD)), ('and', ('cmp', 'eq', d, F(MAXD)), nz)), 'IntervalOutOfRange'),
                (('cmp', 'ge', h, F(24)), 'TimeOutOfRange'), (('cmp', 'ge', mi, F(60)), 'InvalidMinute'),
                (('cmp', 'ge', s, F(60)), 'InvalidSecond'), (('cmp', 'gt', us, F(999_999)), 'InvalidFraction')]
        expect = None
        for p, e in spec:
            dd = c.I.decide(st, p, deep=True)
            if dd is None:
                expect = '?'
                break
            if dd:
                expect = e
                break
        if bool_result:
            got = 'accept' if (isinstance(ret, VBool) and ret.val is True) else ('reject' if isinstance(ret, VBool) and ret.val is False else '?')
            want = 'accept' if expect is None else ('reject' if expect != '?' else '?')
            c.rec('C13', f"{name}: decision list = L_dhms", got == want and got != '?', f"state gives {got}, spec gives {want}")
            continue
        kind, v = c.split_result(ret)
        if kind == 'err':
            c.rec('C13', f"{name}: decision list = L_dhms", v == expect, f"returned {v}, spec gives {expect}")
        elif kind == 'ok':
            c.rec('C13', f"{name}: decision list = L_dhms", expect is None, f"accepted where spec gives {expect}")
            cnt = c.count(v)
            e = d.scale(D_US).add(h.scale(H_US)).add(mi.scale(MI_US)).add(s.scale(S_US)).add(us)
            c.rec('C13', f"{name}: value = D*d + H*h + Mi*m + S*s + us", st.num.eq0(cnt.sub(e)), f"{cnt!r} vs {e!r}")
    c.rec('C13', f"{name}: has exits", len(c.exits) > 0)


@contract(r'^interval::IntervalDT::try_from_dhms$')
def _(c):
    _dhms_list(c, 'IntervalDT::try_from_dhms', False)


@contract(r'^interval::IntervalDT::is_valid$')
def _(c):
    _dhms_list(c, 'IntervalDT::is_valid', True)


def _div_accessor(c, prop, name, spec_fn):
    x = c.argc(0)
    for (st, ret) in c.exits:
        v = ret.variants.get(SOME) if isinstance(ret, VAdt) else None
        ok = v is not None and len(ret.variants) == 1 and isinstance(v[0], VInt)
        why = f"{ret!r}"
        if ok:
            e = spec_fn(c, st, x)
            ok = st.num.eq0(v[0].form.sub(e))
            why = f"{v[0].form!r} vs {e!r}"
        c.rec(prop, name, ok, why)


def _q(c, st, x, k):
    return c.I.int_binop(st, 'Div', VInt(x, 'i64'), VInt(F(k), 'i64'), 'i64')


def _r(c, st, x, k):
    return c.I.int_binop(st, 'Rem', VInt(x, 'i64'), VInt(F(k), 'i64'), 'i64')


def _second_accessor(c, prop, name, scale_unit):
    x = c.argc(0)
    for (st, ret) in c.exits:
        v = ret.variants.get(SOME) if isinstance(ret, VAdt) else None
        ok = v is not None and len(ret.variants) == 1 and isinstance(v[0], VFloat)
        why = f"{ret!r}"
        if ok:
            ex = v[0].expr
            ok = bool(ex) and ex[0] == 'div' and ex[1] is not None and ex[1][0] == 'i2f' and ex[2] is not None and ex[2][0] == 'i2f' and ex[2][1] == F(S_US)
            if ok:
                num = ex[1][1]
                a, b = st.num.rng2(num)
                # the numerator is the microseconds within the minute (same remainder class, magnitude below one minute)
                ok = st.num.residue(num.sub(x), MI_US) == 0 and -MI_US < a and b < MI_US
                why = f"numerator {num!r} in [{a}, {b}]"
            else:
                why = f"value {ex}"
        c.rec(prop, f"{name}: second = float(count % minute) / 1e6 (exact integer remainder before the conversion)", ok, why)


@contract(r'^<time::Time as DateTime>::second$')
def _(c):
    _second_accessor(c, 'C07', 'Time::second', MI_US)


@contract(r'^<interval::IntervalDT as DateTime>::second$')
def _(c):
    _second_accessor(c, 'C13', 'IntervalDT::second', MI_US)


@contract(r'^<interval::IntervalYM as DateTime>::year$')
def _(c):
    _div_accessor(c, 'C13', 'IntervalYM year accessor = m / 12', lambda c, st, x: _q(c, st, x, 12))


@contract(r'^<interval::IntervalYM as DateTime>::month$')
def _(c):
    _div_accessor(c, 'C13', 'IntervalYM month accessor = m % 12', lambda c, st, x: _r(c, st, x, 12))


@contract(r'^<interval::IntervalDT as DateTime>::day$')
def _(c):
    _div_accessor(c, 'C13', 'IntervalDT day accessor = u / D', lambda c, st, x: _q(c, st, x, D_US))


@contract(r'^<interval::IntervalDT as DateTime>::hour$')
def _(c):
    _div_accessor(c, 'C13', 'IntervalDT hour accessor = (u % D) / H', lambda c, st, x: _q(c, st, _r(c, st, x, D_US), H_US))


@contract(r'^<interval::IntervalDT as DateTime>::minute$')
def _(c):
    _div_accessor(c, 'C13', 'IntervalDT minute accessor = (u % H) / Mi', lambda c, st, x: _q(c, st, _r(c, st, x, H_US), MI_US))


# ----------------------------------------------------------------------------- C16: Oracle-style date holds whole seconds
def _floor_second(c, name, exact_ts):
    """result == 0 (mod S) and 0 <= exact - result < S  (floor toward earlier time)"""
    for (st, ret) in c.exits:
        kind, v = c.split_result(ret)
        if kind == 'err':
            continue
        if kind == 'ok':
            ret = v
        r = c.count(ret)
        e = exact_ts(st) if callable(exact_ts) else exact_ts
        res = st.num.residue(r, S_US)
        c.rec('C16', f"{name}: result on a whole second", res == 0, f"{r!r} residue {res}")
        a, b = st.num.rng2(e.sub(r))
        c.rec('C16', f"{name}: floors toward earlier time (0 <= exact - result < 1s)", a >= 0 and b < S_US, f"exact - result in [{a}, {b}]")
    c.rec('C16', f"{name}: has exits", len(c.exits) > 0)


@contract(r'^oracle::Date::new$')
def _(c):
    _floor_second(c, 'OracleDate::new', c.argc(0).scale(D_US).add(c.argc(1)))


@contract(r'^<oracle::Date as std::convert::From<timestamp::Timestamp>>::from$')
def _(c):
    _floor_second(c, 'OracleDate::from(Timestamp)', c.argc(0))


@contract(r'^oracle::Date::add_interval_dt$')
def _(c):
    _floor_second(c, 'OracleDate::add_interval_dt', c.argc(0).add(c.argc(1)))


@contract(r'^oracle::Date::sub_interval_dt$')
def _(c):
    _floor_second(c, 'OracleDate::sub_interval_dt', c.argc(0).sub(c.argc(1)))


# ----------------------------------------------------------------------------- C09: month arithmetic
def _find_sym(form: Form, tag):
    for s, k in form.terms:
        info = SYMTAB.syms[s]
        if info.kind == 'opaque' and info.data and info.data[0] == tag:
            return s, k, info
    return None


def _month_shift(c, name, sign, ts):
    """result date = try_from_ymd(y', m', day) with 12*y' + (m'-1) = 12*y + (m-1) +/- k, same day (and same time)"""
    k = c.argc(1)
    n_ok = 0
    for (st, ret) in c.exits:
        kind, v = c.split_result(ret)
        if kind != 'ok':
            continue
        n_ok += 1
        r = c.count(v)
        if ts:
            # microsecond count: D*(jd(y',m') + day - E) + time
            hit = _find_sym(r, 'jd')
            if hit is None or hit[1] != D_US:
                c.rec('C09', f"{name}: result is D*date' + time", False, f"{r!r}")
                continue
            scale = D_US
        else:
            hit = _find_sym(r, 'jd')
            if hit is None or hit[1] != 1:
                c.rec('C09', f"{name}: result is a checked (y', m', day) date", False, f"{r!r}")
                continue
            scale = 1
        jd, _, info = hit
        ykey, mkey = info.data[1]
        ny, nm = Form(ykey[0], ykey[1]), Form(mkey[0], mkey[1])
        # the day symbol of the decomposition of self must appear with the same scale
        dhit = _find_sym(r, 'day')
        yhit = None
        good_day = dhit is not None and dhit[1] == scale
        c.rec('C09', f"{name}: same day of month (no clamping)", good_day, f"{r!r}")
        if not good_day:
            continue
        dsym, _, dinfo = dhit
        jkey = dinfo.data[1]
        ysym = SYMTAB.cons.get(('op', 'year', jkey))
        msym = SYMTAB.cons.get(('op', 'month', jkey))
        if ysym is None or msym is None:
            c.rec('C09', f"{name}: year/month of self located", False, '')
            continue
        lhs = ny.scale(12).add(nm).addc(-1)
        rhs = Form.sym(ysym, 12).add(Form.sym(msym)).addc(-1).add(k.scale(sign))
        c.rec('C09', f"{name}: 12*y' + (m'-1) == 12*y + (m-1) {'+' if sign > 0 else '-'} k", st.num.eq0(lhs.sub(rhs)), f"{lhs!r} vs {rhs!r}")
        a, b = st.num.rng2(nm)
        c.rec('C09', f"{name}: m' in 1..=12", a >= 1 and b <= 12, f"[{a}, {b}]")
        rest = r.sub(Form.sym(jd, scale)).sub(Form.sym(dsym, scale)).addc(UNIX_EPOCH_JULIAN * scale)
        if ts and c.key.startswith('date::Date::'):
            c.rec('C09', f"{name}: result at midnight", not rest.terms and rest.c == 0, f"extra {rest!r}")
        elif ts:
            # remaining part must be the time of day of self:  u - D*floor(u / D)
            u = c.argc(0)
            ok_t = st.num.residue(rest.sub(u), D_US) == 0
            a2, b2 = st.num.rng2(rest)
            c.rec('C09', f"{name}: time of day unchanged", ok_t and a2 >= 0 and b2 < D_US, f"time part {rest!r} in [{a2}, {b2}]")
        else:
            c.rec('C09', f"{name}: midnight", not rest.terms and rest.c == 0, f"extra {rest!r}")
    c.rec('C09', f"{name}: some path returns Ok", n_ok > 0)
    # failures: exactly when the target month lies outside years 1..=9999 or has no such day
    base = c.argc(0)
    dform = base if not ts or c.key.startswith('date::Date::') else None
    for (st, ret) in c.exits:
        kind, v = c.split_result(ret)
        if kind != 'err':
            continue
        ysym = msym = dsym = None
        for s_ in range(len(SYMTAB.syms)):
            pass
        parts = None
        for (tag, info) in ():
            pass
        # locate the decomposition symbols of self that are live in this state (year/month/day of some julian form)
        cands = [(key_, sid) for key_, sid in SYMTAB.cons.items() if key_[0] == 'op' and key_[1] == 'year']
        found = None
        for key_, ys in cands:
            jkey = key_[2]
            ms = SYMTAB.cons.get(('op', 'month', jkey))
            ds = SYMTAB.cons.get(('op', 'day', jkey))
            if ms is None or ds is None:
                continue
            # the one whose julian form mentions the root's own count symbol
            jf = Form(jkey[0], jkey[1])
            # the decomposition taken on *this* path: its day symbol occurs in the K2 facts of the state
            live = any(F_.coeff(ds) for F_ in st.num.facts)
            if live:
                found = (ys, ms, ds) if found is None else 'ambiguous' 
        if found is None or found == 'ambiguous':
            c.rec('C09', f"{name}: error exits refer to the decomposition of self", False, f"{v} ({found})")
            continue
        ys, ms, ds = found
        T = Form.sym(ys, 12).add(Form.sym(ms)).addc(-1).add(k.scale(sign))
        a, b = st.num.rng2(T)
        if a > b:
            continue
        if v == 'DateOutOfRange':
            c.rec('C09', f"{name}: fails with a range error only when the target month is outside years 1..=9999", b < 12 or a > 119999,
                  f"DateOutOfRange although 12*y + (m-1) {'+' if sign > 0 else '-'} k is in [{a}, {b}] (years 1..=9999 are [12, 119999])")
        elif v in ('InvalidDate', 'InvalidDay'):
            dl, dh = st.num.rng2(Form.sym(ds))
            c.rec('C09', f"{name}: fails with a date error only for days 29..31 of an in-range target month", a >= 12 and b <= 119999 and dl >= 29,
                  f"{v} for target month index in [{a}, {b}], day in [{dl}, {dh}]")


@contract(r'^date::Date::add_interval_ym$')
def _(c):
    _month_shift(c, 'Date::add_interval_ym', +1, True)


@contract(r'^date::Date::sub_interval_ym$')
def _(c):
    _month_shift(c, 'Date::sub_interval_ym', -1, True)


@contract(r'^timestamp::Timestamp::add_interval_ym$')
def _(c):
    _month_shift(c, 'Timestamp::add_interval_ym', +1, True)


@contract(r'^timestamp::Timestamp::sub_interval_ym$')
def _(c):
    _month_shift(c, 'Timestamp::sub_interval_ym', -1, True)


def _last_day(c, name, scale):
    x = c.argc(0)
    for (st, ret) in c.exits:
        r = c.count(ret)
        d = r.sub(x)
        dom = _find_sym(d, 'dom')
        day = _find_sym(d, 'day')
        ok = dom is not None and day is not None and dom[1] == scale and day[1] == -scale and len(d.terms) == 2 and d.c == 0
        if ok:
            # dom must be of the year/month of the same decomposition as day
            jkey = day[2].data[1]
            ysym = SYMTAB.cons.get(('op', 'year', jkey))
            msym = SYMTAB.cons.get(('op', 'month', jkey))
            ok = dom[2].data[1] == (Form.sym(ysym).key(), Form.sym(msym).key())
        c.rec('C09', f"{name}: result = self + (days_of_month(y, m) - day)", ok, f"difference {d!r}")
    c.rec('C09', f"{name}: has exits", len(c.exits) > 0)


@contract(r'^date::Date::last_day_of_month$')
def _(c):
    _last_day(c, 'Date::last_day_of_month', 1)


@contract(r'^timestamp::Timestamp::last_day_of_month$')
def _(c):
    _last_day(c, 'Timestamp::last_day_of_month', D_US)


def _split_exits(I, exits):
    """an exit whose Result value still has both variants (result of a summarised callee) counts as two exits"""
    out = []
    for (st, ret) in exits:
        if isinstance(ret, VAdt) and len(ret.variants) > 1 and (I.facts.types.get(ret.ty, {}).get('def') or '').endswith('result::Result'):
            for k in sorted(ret.variants):
                fs = ret.variants[k]
                if k == ERR and fs and isinstance(fs[0], VAdt) and len(fs[0].variants) > 1:
                    out.append((st, VAdt(ret.ty, {k: fs})))
                else:
                    out.append((st, VAdt(ret.ty, {k: fs})))
        elif isinstance(ret, VBool) and ret.val is None:
            # an undecided boolean result (last operand of an && / || chain): one exit per truth value
            p = I.bool_pred(ret)
            got = False
            if p is not None:
                for truth in (True, False):
                    for s2 in I.assume(st.copy(), p, truth):
                        out.append((s2, VBool(truth)))
                        got = True
            if not got:
                out.append((st, ret))
        else:
            out.append((st, ret))
    return out


_CUR_INTERP = [None]


def run_contracts(I, key, args, exits, variant=None):
    _CUR_INTERP[0] = I
    raw = exits
    exits = _split_exits(I, exits)
    ctx = Ctx(I, key, args, exits, variant)
    ctx.raw_exits = raw
    if variant is not None and variant.startswith('pic:'):
        try:
            from .pictures import picture_contract
            picture_contract(ctx)
        except Exception as e:
            ctx.rec('C00', f"picture contract for {key} {variant}", False, f"{type(e).__name__}: {e}")
        return ctx.out
    for pat, fn in CONTRACTS:
        if pat.search(key):
            try:
                fn(ctx)
            except Exception as e:  # a contract that cannot be evaluated is a failed contract, not a pass
                ctx.rec('C00', f"contract evaluation for {key}", False, f"{type(e).__name__}: {e}")
    return ctx.out


# ----------------------------------------------------------------------------- C10 / C11: truncation and rounding
E_J = UNIX_EPOCH_JULIAN


def _k2_of(dform):
    """(year, month, day) symbols of the K2 decomposition of the date with day count dform, if it was taken"""
    key = dform.addc(E_J).key()
    out = []
    for tag in ('year', 'month', 'day'):
        s = SYMTAB.cons.get(('op', tag, key))
        if s is None:
            return None
        out.append(Form.sym(s))
    return out


def _ymd_of_result(r: Form):
    """r = jd(y', m') + k - E  ->  (y', m', k) else None"""
    hit = _find_sym(r, 'jd')
    if hit is None or hit[1] != 1:
        return None
    jd, _, info = hit
    rest = r.sub(Form.sym(jd))
    if rest.terms:
        return None
    ykey, mkey = info.data[1]
    return Form(ykey[0], ykey[1]), Form(mkey[0], mkey[1]), rest.c + E_J


def _ok_exits(c):
    for (st, ret) in c.exits:
        kind, v = c.split_result(ret)
        if kind == 'ok':
            yield st, c.count(v)


def _err_exits(c):
    for (st, ret) in c.exits:
        kind, v = c.split_result(ret)
        if kind == 'err':
            yield st, v


def _only_gate_errors(c, prop, name):
    for st, e in _err_exits(c):
        c.rec(prop, f"{name}: errors are range errors", e == 'DateOutOfRange', f"error {e}")


def _first_of(c, prop, name, ycheck, mcheck):
    """result is the first day of (y', m') with checks on y' and m' relative to the decomposition of self"""
    n = 0
    parts = _k2_of(c.argc(0))
    for st, r in _ok_exits(c):
        n += 1
        ymd = _ymd_of_result(r)
        if parts is None or ymd is None or ymd[2] != 1:
            c.rec(prop, f"{name}: result is day 1 of a month", False, f"{r!r}")
            continue
        y, m, d = parts
        y2, m2, _ = ymd
        ok, why = ycheck(st, y, m, d, y2)
        c.rec(prop, f"{name}: year of the result", ok, why)
        ok, why = mcheck(st, y, m, d, m2, y2)
        c.rec(prop, f"{name}: month of the result", ok, why)
    c.rec(prop, f"{name}: some path returns Ok", n > 0)


def _same(st, a, b):
    return a == b or st.num.eq0(a.sub(b))


QUARTER_RULE = {}


def _quarter_rule(month, late):
    q0 = 3 * ((month - 1) // 3) + 1
    second = q0 + 1
    up = month > second or (month == second and late)
    mm = q0 + 3 if up else q0
    return 1 if mm == 13 else mm


def _tbl_lookup(f: Form, table_suffix, index_expected, st):
    """f is the value read from table *table_suffix at exactly index_expected"""
    if f.is_const() and table_suffix.startswith('QUARTER_'):
        lo, hi = st.num.rng(index_expected)
        if 0 <= lo <= hi <= 11:
            wants = set()
            for i in range(lo, hi + 1):
                if table_suffix == 'QUARTER_FIRST_MONTH':
                    wants.add(3 * (i // 3) + 1)
                else:
                    wants.add(_quarter_rule(i + 1, table_suffix == 'QUARTER_ROUND_MONTH'))
            return wants == {f.c}, f"month {f.c} for indices {lo}..{hi}, rule gives {sorted(wants)}"
    if len(f.terms) == 1 and f.c == 0 and f.terms[0][1] == 1:
        data = SYMTAB.syms[f.terms[0][0]].data
        if data and data[0] == 'tbl' and data[1].endswith(table_suffix):
            return _same(st, data[2], index_expected), f"index {data[2]!r} (expected {index_expected!r}) of {data[1]}"
    # computed instead of looked up: compare with the rule for every value of the index
    lo, hi = st.num.rng(index_expected)
    if table_suffix.startswith('QUARTER_') and 0 <= lo <= hi <= 11:
        from .interp import Interp  # noqa: F401  (assume lives on the interpreter; reached through the global below)
        I = _CUR_INTERP[0]
        for i in range(lo, hi + 1):
            want = 3 * (i // 3) + 1 if table_suffix == 'QUARTER_FIRST_MONTH' else _quarter_rule(i + 1, table_suffix == 'QUARTER_ROUND_MONTH')
            for s_i in I.assume(st.copy(), ('cmp', 'eq', index_expected, Form.const(i)), True):
                a, b = s_i.num.rng2(f)
                if (a, b) != (want, want):
                    return False, f"month {i + 1}: the result month is in [{a}, {b}], the rule gives {want}"
        return True, ''
    return False, f"{f!r} is not a lookup in {table_suffix}"


@contract(r'^<date::Date as Trunc>::trunc_century$')
def _(c):
    def yc(st, y, m, d, y2):
        res = st.num.residue(y2.addc(-1), 100)
        a, b = st.num.rng2(y.sub(y2))
        return res == 0 and a >= 0 and b <= 99, f"y' = {y2!r}: (y'-1) mod 100 = {res}, y - y' in [{a}, {b}]"
    _first_of(c, 'C10', 'trunc_century', yc, lambda st, y, m, d, m2, y2: (m2 == F(1), f"month {m2!r}"))
    _only_gate_errors(c, 'C10', 'trunc_century')


@contract(r'^<date::Date as Trunc>::trunc_year$')
def _(c):
    _first_of(c, 'C10', 'trunc_year', lambda st, y, m, d, y2: (_same(st, y, y2), f"{y2!r} vs {y!r}"),
              lambda st, y, m, d, m2, y2: (m2 == F(1), f"month {m2!r}"))


@contract(r'^<date::Date as Trunc>::trunc_month$')
def _(c):
    _first_of(c, 'C10', 'trunc_month', lambda st, y, m, d, y2: (_same(st, y, y2), f"{y2!r} vs {y!r}"),
              lambda st, y, m, d, m2, y2: (_same(st, m, m2), f"{m2!r} vs {m!r}"))


@contract(r'^<date::Date as Trunc>::trunc_quarter$')
def _(c):
    _first_of(c, 'C10', 'trunc_quarter', lambda st, y, m, d, y2: (_same(st, y, y2), f"{y2!r} vs {y!r}"),
              lambda st, y, m, d, m2, y2: _tbl_lookup(m2, 'QUARTER_FIRST_MONTH', m.addc(-1), st))


def _week_like(c, prop, name, anchor, lo, hi, gate=True):
    """result == anchor (mod 7) and lo <= d - result <= hi.  anchor(st, parts) -> Form whose residue class the result must share"""
    d = c.argc(0)
    parts = _k2_of(d)
    n = 0
    for st, r in _ok_exits(c):
        n += 1
        a = anchor(st, parts)
        if a is None:
            c.rec(prop, f"{name}: anchor of the week grid located", False, '')
            continue
        res = st.num.residue(r.sub(a), 7)
        c.rec(prop, f"{name}: result lies on the week grid", res == 0, f"result {r!r} - anchor {a!r}: residue {res} (mod 7)")
        x, y = st.num.rng2(d.sub(r))
        c.rec(prop, f"{name}: moves by {lo}..{hi} days", x >= lo and y <= hi, f"self - result in [{x}, {y}]")
    c.rec(prop, f"{name}: some path returns Ok", n > 0)
    for st, e in _err_exits(c):
        c.rec(prop, f"{name}: errors are range errors", e == 'DateOutOfRange', f"error {e}")
        # a week boundary is at most 6 days away: truncation can only fail in the first week of the range, rounding
        # only in the last one (the chosen boundary after the maximum date)
        x, y = st.num.rng2(d)
        if prop == 'C10':
            c.rec(prop, f"{name}: fails only when the boundary would lie before 0001-01-01", y <= INV['date::Date'][0] + 6, f"fails for day numbers in [{x}, {y}]")
        else:
            # (rounding down moves back at most 3 days: below the minimum date only from the first three days of the range)
            c.rec(prop, f"{name}: fails only when the chosen boundary lies outside the range (after the maximum date, or before 0001-01-01 when rounding down)",
                  x >= INV['date::Date'][1] - 6 or y <= INV['date::Date'][0] + 2, f"fails for day numbers in [{x}, {y}]")


def _jan1(st, parts):
    if parts is None:
        return None
    y = parts[0]
    s = SYMTAB.cons.get(('op', 'jd', (y.key(), F(1).key())))
    if s is None:
        return None
    return Form.sym(s).addc(1 - E_J)


def _month_day1(st, parts, dform):
    """day count of day 1 of the month of self:  d - (day - 1)"""
    if parts is None:
        return None
    return dform.sub(parts[2]).addc(1)


@contract(r'^<date::Date as Trunc>::trunc_week$')
def _(c):
    _week_like(c, 'C10', 'trunc_week (weeks from 1 January)', _jan1, 0, 6)


@contract(r'^<date::Date as Trunc>::trunc_iso_week$')
def _(c):
    _week_like(c, 'C10', 'trunc_iso_week (Monday)', lambda st, p: F(4), 0, 6)      # 1970-01-05 (day 4) is a Monday


@contract(r'^<date::Date as Trunc>::trunc_sunday_start_week$')
def _(c):
    _week_like(c, 'C10', 'trunc_sunday_start_week (Sunday)', lambda st, p: F(3), 0, 6)   # 1970-01-04 (day 3) is a Sunday


@contract(r'^<date::Date as Trunc>::trunc_month_start_week$')
def _(c):
    d = c.argc(0)
    _week_like(c, 'C10', 'trunc_month_start_week (days 1, 8, 15, 22, 29)', lambda st, p: _month_day1(st, p, d), 0, 6)
    parts = _k2_of(d)
    for st, r in _ok_exits(c):
        if parts is not None:
            a, b = st.num.rng2(parts[2].addc(-1).sub(d.sub(r)))
            c.rec('C10', 'trunc_month_start_week: stays inside the month', a >= 0, f"(day-1) - moved in [{a}, {b}]")


@contract(r'^<date::Date as (Trunc|Round)>::(trunc|round)_(day|hour|minute)$')
def _(c):
    c.exact('C10' if 'Trunc' in c.key else 'C11', 'Date: day/hour/minute units are the identity', c.argc(0))


# ---- timestamps: units below a day
def _ts_grid(c, prop, name, unit, lo, hi):
    u = c.argc(0)
    n = 0
    for st, r in _ok_exits(c):
        n += 1
        res = st.num.residue(r, unit)
        c.rec(prop, f"{name}: result on the unit grid", res == 0, f"{r!r}: residue {res}")
        a, b = st.num.rng2(u.sub(r))
        if a > b:
            continue        # contradictory state: the path is infeasible
        c.rec(prop, f"{name}: offset from the input", a >= lo and b <= hi, f"input - result in [{a}, {b}], allowed [{lo}, {hi}]")
    c.rec(prop, f"{name}: some path returns Ok", n > 0)
    for st, e in _err_exits(c):
        c.rec(prop, f"{name}: errors are range errors", e == 'DateOutOfRange', f"error {e}")


def _date_of_result_decomposition(c, st, r):
    """the Julian-day form X whose (year, month[, day]) decomposition the result r = D*(jd(y', m') + k - E) was built from"""
    ymd = _ymd_of_result_scaled(r)
    if ymd is None:
        return None
    xs = set()
    stack = list(ymd[:2])
    seen = set()
    while stack:
        f = stack.pop()
        for s_, _ in f.terms:
            if s_ in seen:
                continue
            seen.add(s_)
            info = SYMTAB.syms[s_]
            if info.kind == 'opaque' and info.data and info.data[0] in ('year', 'month', 'day'):
                xs.add(info.data[1])
            elif info.kind == 'div':
                stack.append(info.data[0])
            elif info.kind == 'opaque' and info.data and info.data[0] == 'dom':
                pass
    if len(xs) != 1:
        return None
    k = xs.pop()
    return Form(k[0], k[1])


def _ymd_of_result_scaled(r: Form):
    """r = D*(jd(y', m') + k - E) -> (y', m', k)"""
    if r.c % D_US or any(k % D_US for _, k in r.terms):
        return None
    return _ymd_of_result(Form(r.c // D_US, tuple((s_, k // D_US) for s_, k in r.terms)))


TS_DAY_UNITS = 'century|year|iso_year|quarter|month|week|iso_week|month_start_week|sunday_start_week'


@contract(r'^<(timestamp::Timestamp|oracle::Date) as Trunc>::trunc_(' + TS_DAY_UNITS + r')$')
def _(c):
    """units of a day or longer: the time of day is cleared (which boundary: the Date contract of the unit + delegation)"""
    name = 'Timestamp::' + c.key.rsplit('::', 1)[1]
    n = 0
    for st, r in _ok_exits(c):
        n += 1
        res = st.num.residue(r, D_US)
        c.rec('C10', f"{name}: the time of day is cleared (result at midnight)", res == 0, f"{r!r}: residue {res} modulo one day")
    c.rec('C10', f"{name}: some path returns Ok", n > 0)


@contract(r'^<(timestamp::Timestamp|oracle::Date) as Round>::round_(century|year|quarter|month)$')
def _(c):
    """calendar units: the rule is applied to the calendar date of the value (no noon shift), the result is a midnight"""
    u = c.argc(0)
    name = 'Timestamp::' + c.key.rsplit('::', 1)[1]
    n = 0
    for st, r in _ok_exits(c):
        n += 1
        res = st.num.residue(r, D_US)
        c.rec('C11', f"{name}: result at midnight", res == 0, f"{r!r}: residue {res} modulo one day")
        x = _date_of_result_decomposition(c, st, r)
        if x is None:
            c.rec('C11', f"{name}: the rule is applied to the calendar date of the value", False, f"{r!r} is not built from one calendar decomposition")
            continue
        ok = True
        why = ''
        for (s2, q, _) in _floor_parts(c, st, u, D_US):
            if not s2.num.eq0(x.addc(-E_J).sub(q)):
                ok = False
                why = f"the date that was rounded is day {x.addc(-E_J)!r}, the calendar date of the value is floor(u / D) = {q!r}"
        c.rec('C11', f"{name}: the rule is applied to the calendar date of the value", ok, why)
    c.rec('C11', f"{name}: some path returns Ok", n > 0)


@contract(r'^<(timestamp::Timestamp|oracle::Date) as Trunc>::trunc_hour$')
def _(c):
    _ts_grid(c, 'C10', 'Timestamp::trunc_hour', H_US, 0, H_US - 1)


@contract(r'^<(timestamp::Timestamp|oracle::Date) as Trunc>::trunc_minute$')
def _(c):
    _ts_grid(c, 'C10', 'Timestamp::trunc_minute', MI_US, 0, MI_US - 1)


@contract(r'^<(timestamp::Timestamp|oracle::Date) as Trunc>::trunc_day$')
def _(c):
    _ts_grid(c, 'C10', 'Timestamp::trunc_day', D_US, 0, D_US - 1)


@contract(r'^<(timestamp::Timestamp|oracle::Date) as Round>::round_hour$')
def _(c):
    _ts_grid(c, 'C11', 'Timestamp::round_hour (up from minute 30)', H_US, -(H_US // 2), H_US // 2 - 1)


@contract(r'^<(timestamp::Timestamp|oracle::Date) as Round>::round_minute$')
def _(c):
    _ts_grid(c, 'C11', 'Timestamp::round_minute (up from second 30)', MI_US, -(MI_US // 2), MI_US // 2 - 1)


@contract(r'^<(timestamp::Timestamp|oracle::Date) as Round>::round_day$')
def _(c):
    _ts_grid(c, 'C11', 'Timestamp::round_day (up from 12:00)', D_US, -(D_US // 2), D_US // 2 - 1)


# ---- rounding of dates
@contract(r'^<date::Date as Round>::round_century$')
def _(c):
    parts = _k2_of(c.argc(0))
    n = 0
    for st, r in _ok_exits(c):
        n += 1
        ymd = _ymd_of_result(r)
        if parts is None or ymd is None or ymd[2] != 1 or ymd[1] != F(1):
            c.rec('C11', 'round_century: result is 1 January', False, f"{r!r}")
            continue
        y, y2 = parts[0], ymd[0]
        res = st.num.residue(y2.addc(-1), 100)
        c.rec('C11', 'round_century: result year is 1 mod 100', res == 0, f"{y2!r}: residue {res}")
        a, b = st.num.rng2(y.sub(y2))
        ry = st.num.residue(y, 100)
        path = 'year = 0 (mod 100)' if ry == 0 else 'year != 0 (mod 100)'
        c.rec('C11', f"round_century: year 51 of a century is the first to round up (-50 <= y - y' <= 49) on path[{path}]",
              a >= -50 and b <= 49, f"y - y' in [{a}, {b}]")
    c.rec('C11', 'round_century: some path returns Ok', n > 0)
    for st, e in _err_exits(c):
        if parts is None:
            c.rec('C11', 'round_century: error region', False, 'no decomposition')
            continue
        a, b = st.num.rng2(parts[0])
        c.rec('C11', 'round_century: fails only when the next century start is after 9999 (year >= 9951)',
              e == 'DateOutOfRange' and a >= 9951, f"error {e} returned for years [{a}, {b}]")


def _ymd_round(c, name, decide, split_month=False):
    """decide(st, y, m, d) -> (y', m') expected forms, or 'err' if the rule's boundary is after 9999-12-31, or None if undecided.
    split_month: evaluate the rule per value of the month (and per side of the 16th) - for implementations whose own
    branches are on a computed quantity rather than on the month itself"""
    parts = _k2_of(c.argc(0))
    n = 0
    exits = c.exits
    if split_month and parts is not None:
        y, m, d = parts
        exits = []
        for (st, ret) in c.exits:
            lo, hi = st.num.rng(m)
            for k in range(max(lo, 1), min(hi, 12) + 1):
                for s2 in c.I.assume(st.copy(), ('cmp', 'eq', m, F(k)), True):
                    if _dec(c, s2, ('cmp', 'ge', d, F(16))) is None:
                        exits.extend((s3, ret) for s3 in c.I.assume(s2.copy(), ('cmp', 'ge', d, F(16)), True))
                        exits.extend((s3, ret) for s3 in c.I.assume(s2.copy(), ('cmp', 'ge', d, F(16)), False))
                    else:
                        exits.append((s2, ret))
    for (st, ret) in exits:
        kind, v = c.split_result(ret)
        if parts is None:
            c.rec('C11', f"{name}: decomposition of self", False, '')
            continue
        y, m, d = parts
        want = decide(st, y, m, d)
        if want is None:
            c.rec('C11', f"{name}: path decides the rounding direction", False, f"month in {list(st.num.rng(m))}, day in {list(st.num.rng(d))}")
            continue
        if kind == 'err':
            c.rec('C11', f"{name}: fails only when the chosen boundary is after the maximum date", want == 'err' and v == 'DateOutOfRange',
                  f"error {v}; rule gives {want if want == 'err' else [repr(x) for x in want]}")
            continue
        n += 1
        r = c.count(v)
        ymd = _ymd_of_result(r)
        if ymd is None or ymd[2] != 1 or want == 'err':
            c.rec('C11', f"{name}: result is day 1 of the chosen month", False, f"{r!r} (rule: {want})")
            continue
        ok_y = _same(st, ymd[0], want[0])
        if isinstance(want[1], tuple):
            ok_m, why = _tbl_lookup(ymd[1], want[1][0], want[1][1], st)
        else:
            ok_m, why = _same(st, ymd[1], want[1]), f"{ymd[1]!r} vs {want[1]!r}"
        c.rec('C11', f"{name}: year of the result", ok_y, f"{ymd[0]!r} vs {want[0]!r}")
        c.rec('C11', f"{name}: month of the result", ok_m, why)
    c.rec('C11', f"{name}: some path returns Ok", n > 0)


def _dec(c, st, p):
    return c.I.decide(st, p, deep=True)


@contract(r'^<date::Date as Round>::round_year$')
def _(c):
    def rule(st, y, m, d):
        up = _dec(c, st, ('cmp', 'ge', m, F(7)))
        if up is None:
            return None
        if not up:
            return (y, F(1))
        last = _dec(c, st, ('cmp', 'ge', y, F(9999)))
        if last is None:
            return None
        return 'err' if last else (y.addc(1), F(1))
    _ymd_round(c, 'round_year (up from 1 July)', rule)


@contract(r'^<date::Date as Round>::round_month$')
def _(c):
    def rule(st, y, m, d):
        up = _dec(c, st, ('cmp', 'ge', d, F(16)))
        if up is None:
            return None
        if not up:
            return (y, m)
        dec = _dec(c, st, ('cmp', 'eq', m, F(12)))
        if dec is None:
            return None
        if not dec:
            return (y, m.addc(1))
        last = _dec(c, st, ('cmp', 'ge', y, F(9999)))
        if last is None:
            return None
        return 'err' if last else (y.addc(1), F(1))
    _ymd_round(c, 'round_month (up from the 16th)', rule)


@contract(r'^<date::Date as Round>::round_quarter$')
def _(c):
    def rule(st, y, m, d):
        late = _dec(c, st, ('cmp', 'ge', d, F(16)))
        if late is None:
            return None
        # the year carries when the chosen quarter start is next January: month 12 always, month 11 from the 16th
        carry = _dec(c, st, ('cmp', 'ge', m, F(11))) if late else _dec(c, st, ('cmp', 'eq', m, F(12)))
        if carry is None:
            return None
        tbl = 'QUARTER_ROUND_MONTH' if late else 'QUARTER_TRUNC_MONTH'
        if carry:
            last = _dec(c, st, ('cmp', 'ge', y, F(9999)))
            if last is None:
                return None
            if last:
                return 'err'
            return (y.addc(1), (tbl, m.addc(-1)))
        return (y, (tbl, m.addc(-1)))
    _ymd_round(c, "round_quarter (up from the 16th of the quarter's second month)", rule, split_month=True)


@contract(r'^<date::Date as Round>::round_week$')
def _(c):
    _week_like(c, 'C11', 'round_week (fifth day rounds up)', _jan1, -3, 3)


@contract(r'^<date::Date as Round>::round_iso_week$')
def _(c):
    _week_like(c, 'C11', 'round_iso_week (Friday rounds up)', lambda st, p: F(4), -3, 3)


@contract(r'^<date::Date as Round>::round_sunday_start_week$')
def _(c):
    _week_like(c, 'C11', 'round_sunday_start_week (Thursday rounds up)', lambda st, p: F(3), -3, 3)


@contract(r'^<date::Date as Round>::round_month_start_week$')
def _(c):
    d = c.argc(0)
    _week_like(c, 'C11', 'round_month_start_week (fifth day rounds up)', lambda st, p: _month_day1(st, p, d), -3, 3)


# ----------------------------------------------------------------------------- C14: scaling by a float
def _float_scale(c, name, op, tdef):
    x = c.argc(0)
    ity = 'i32' if tdef == 'interval::IntervalYM' else 'i64'
    R = (op, ('i2f', x, ity), ('param', 'number'))
    zero = ('eq', ('param', 'number'), ('const', '0.0'))
    seen = set()
    for (st, ret) in c.exits:
        kind, v = c.split_result(ret)
        fp = list(st.notes.get('fpath', ()))
        if op == 'div':
            if not fp or fp[0][0] != zero:
                c.rec('C14', f"{name}: the divisor is compared with zero before the division", False, f"path tests {fp[:1]}")
                continue
            if fp[0][1]:
                seen.add('DivideByZero')
                c.rec('C14', f"{name}: zero divisor -> DivideByZero", kind == 'err' and v == 'DivideByZero' and len(fp) == 1, f"{kind} {v} after {fp}")
                continue
            fp = fp[1:]
        # what the classification tests of this path (in any order, possibly redundant) say about the result R
        cls = {'fin', 'inf', 'nan'}
        other = []
        for (tst, truth) in fp:
            if isinstance(tst, tuple) and len(tst) == 2 and tst[1] == R and tst[0] in ('is_inf', 'is_nan', 'is_fin'):
                one = {tst[0][3:]}
                cls = (cls & one) if truth else (cls - one)
            else:
                other.append((tst, truth))
        if not cls:
            continue            # contradictory tests: not a feasible path
        if kind == 'err' and v == 'NumericOverflow':
            seen.add(v)
            c.rec('C14', f"{name}: infinite result -> NumericOverflow", cls == {'inf'} and not other, f"path tests {fp}")
        elif kind == 'err' and v == 'InvalidNumber':
            seen.add(v)
            c.rec('C14', f"{name}: NaN result -> InvalidNumber", cls == {'nan'} and not other, f"path tests {fp}")
        elif kind == 'err' and v == 'IntervalOutOfRange':
            seen.add(v)
            c.rec('C14', f"{name}: finite result outside the range -> IntervalOutOfRange", cls == {'fin'} and not other, f"path tests {fp}")
        elif kind == 'ok':
            seen.add('ok')
            cnt = c.count(v)
            good = cls == {'fin'} and not other
            why = f"path tests {fp}"
            if good:
                good = False
                if len(cnt.terms) == 1 and cnt.c == 0 and cnt.terms[0][1] == 1:
                    data = SYMTAB.syms[cnt.terms[0][0]].data
                    why = f"value is {data}"
                    good = bool(data) and data[0] == 'f2i' and data[1] == R
            c.rec('C14', f"{name}: value = the product/quotient of the count and the number, cast without rounding", good, why)
            a, b = st.num.rng(cnt)
            lo, hi, _, _ = INV[tdef]
            c.rec('C14', f"{name}: Ok value passed the type's own gate", a >= lo and b <= hi, f"[{a}, {b}]")
        else:
            c.rec('C14', f"{name}: unexpected outcome", False, f"{kind} {v}")
    need = {'NumericOverflow', 'InvalidNumber', 'IntervalOutOfRange', 'ok'} | ({'DivideByZero'} if op == 'div' else set())
    c.rec('C14', f"{name}: all documented outcomes are reachable", need <= seen, f"missing {sorted(need - seen)}")


@contract(r'^interval::IntervalYM::mul_f64$')
def _(c):
    _float_scale(c, 'IntervalYM::mul_f64', 'mul', 'interval::IntervalYM')


@contract(r'^interval::IntervalYM::div_f64$')
def _(c):
    _float_scale(c, 'IntervalYM::div_f64', 'div', 'interval::IntervalYM')


@contract(r'^interval::IntervalDT::mul_f64$')
def _(c):
    _float_scale(c, 'IntervalDT::mul_f64', 'mul', 'interval::IntervalDT')


@contract(r'^interval::IntervalDT::div_f64$')
def _(c):
    _float_scale(c, 'IntervalDT::div_f64', 'div', 'interval::IntervalDT')


@contract(r'^time::Time::mul_f64$')
def _(c):
    _float_scale(c, 'Time::mul_f64', 'mul', 'interval::IntervalDT')


@contract(r'^time::Time::div_f64$')
def _(c):
    _float_scale(c, 'Time::div_f64', 'div', 'interval::IntervalDT')


# ----------------------------------------------------------------------------- C15: serde
def _serde_type(key):
    m = re.search(r'for ([\w:]+)>::(?:serialize|deserialize)', key)
    return m.group(1) if m else None


INT_CHANNEL = {'date::Date': 'i32', 'interval::IntervalYM': 'i32', 'time::Time': 'i64', 'timestamp::Timestamp': 'i64',
               'interval::IntervalDT': 'i64', 'oracle::Date': 'i64'}


@contract(r'Visitor<\'_>>::visit_i(32|64)::<E>$')
def _(c):
    t = _serde_type(c.key)
    want = INT_CHANNEL.get(t)
    c.rec('C15', 'binary decoding uses the documented integer width', want is not None and c.key.endswith(f"visit_{want}::<E>"), f"{c.key} for {t}")
    if t not in INV:
        return
    lo, hi, mod, rem = INV[t]
    v = c.args[1].form
    n_ok = 0
    for (st, ret) in c.exits:
        if not (isinstance(ret, VAdt) and ret.single() is not None):
            c.rec('C15', 'visit_iN: result shape', False, f"{ret!r}")
            continue
        if ret.single() == OK:
            n_ok += 1
            cnt = c.count(ret.variants[OK][0])
            c.rec('C15', 'visit_iN: decoded value is the payload', cnt is not None and st.num.eq0(cnt.sub(v)), f"{cnt!r} vs {v!r}")
            a, b = st.num.rng2(cnt)
            good = a >= lo and b <= hi and (mod == 1 or st.num.residue(cnt, mod) == rem)
            c.rec('C15', 'visit_iN: decoded value is inside the documented range', good, f"[{a}, {b}]")
        else:
            a, b = st.num.rng2(v)
            out = b < lo or a > hi
            if not out and mod > 1:
                r = st.num.residue(v, mod)
                out = (r is not None and r != rem) or st.num.known_nonzero(_rem_form(st, v, mod))
            c.rec('C15', 'visit_iN: an error only for a payload outside the range', out, f"error for payload in [{a}, {b}]")
    c.rec('C15', 'visit_iN: in-range payloads decode', n_ok > 0)


@contract(r'^serialize::<impl serde::Serialize for [\w:]+>::serialize::<S>$')
def _(c):
    t = _serde_type(c.key)
    want = INT_CHANNEL.get(t)
    evs = [e for e in c.I.events if e[0] == 'serde']
    decls = [e[1].split('::')[-1] for e in evs]
    c.rec('C15', 'Serialize: consults is_human_readable', 'is_human_readable' in decls, f"{decls}")
    c.rec('C15', 'Serialize: human readable form is a string', 'serialize_str' in decls, f"{decls}")
    ints = [e for e in evs if e[1].split('::')[-1].startswith('serialize_i')]
    ok = len(ints) >= 1 and all(e[1].endswith(f"serialize_{want}") for e in ints)
    c.rec('C15', f"Serialize: compact form is {want}", ok, f"{[e[1] for e in ints]}")
    me = c.argc(0)
    for e in ints:
        a = e[2][1] if len(e[2]) > 1 else None
        good = isinstance(a, VInt) and me is not None and a.form == me
        c.rec('C15', 'Serialize: the integer written is the count of the value', good, f"{a!r} vs {me!r}")
    lz = sorted({e[1] for e in c.I.events if e[0] == 'lazy'})
    c.rec('C15', 'Serialize: exactly one static formatter is used', len(lz) == 1, f"{lz}")
    c.out.append({'prop': 'C15', 'root': c.key, 'clause': 'info', 'ok': True, 'detail': '', 'info': {'type': t, 'static': lz, 'channel': want}})


@contract(r'^serialize::<impl serde::Deserialize<\'_> for [\w:]+>::deserialize::<D>$')
def _(c):
    t = _serde_type(c.key)
    want = INT_CHANNEL.get(t)
    evs = [e for e in c.I.events if e[0] == 'serde']
    decls = [e[1].split('::')[-1] for e in evs]
    c.rec('C15', 'Deserialize: consults is_human_readable', 'is_human_readable' in decls, f"{decls}")
    c.rec('C15', 'Deserialize: human readable form is a string', 'deserialize_str' in decls, f"{decls}")
    ints = [d for d in decls if d.startswith('deserialize_i')]
    c.rec('C15', f"Deserialize: compact form is {want} (same width as Serialize)", ints == [f"deserialize_{want}"], f"{ints}")


@contract(r'Visitor<\'_>>::visit_str::<E>$')
def _(c):
    lz = sorted({e[1] for e in c.I.events if e[0] == 'lazy'})
    t = _serde_type(c.key)
    c.rec('C15', 'visit_str: exactly one static formatter is used', len(lz) == 1, f"{lz}")
    c.out.append({'prop': 'C15', 'root': c.key, 'clause': 'info', 'ok': True, 'detail': '', 'info': {'type': t, 'static': lz}})


# ----------------------------------------------------------------------------- C18: the clock
def _chrono_sym(f: Form, name):
    if len(f.terms) == 1 and f.c == 0 and f.terms[0][1] == 1:
        d = SYMTAB.syms[f.terms[0][0]].data
        return bool(d) and d[0] == 'chrono' and d[1] == name
    return False


def _now_date_part(c, st, dcount, scale):
    """dcount (day count form, possibly scaled) is date2julian(now.year, now.month, now.day) - epoch"""
    hit = _find_sym(dcount, 'jd')
    day = None
    for s, k in dcount.terms:
        d = SYMTAB.syms[s].data
        if d and d[0] == 'chrono' and d[1] == 'day':
            day = (s, k)
    if hit is None or day is None or hit[1] != scale or day[1] != scale:
        return False, f"{dcount!r}"
    ykey, mkey = hit[2].data[1]
    ok = _chrono_sym(Form(ykey[0], ykey[1]), 'year') and _chrono_sym(Form(mkey[0], mkey[1]), 'month')
    return ok, f"jd({Form(ykey[0], ykey[1])!r}, {Form(mkey[0], mkey[1])!r}) + day"


@contract(r'^(date::Date|timestamp::Timestamp|oracle::Date)::now$')
def _(c):
    n = 0
    for (st, ret) in c.exits:
        kind, v = c.split_result(ret)
        if kind != 'ok':
            continue
        n += 1
        cnt = c.count(v)
        reads = st.notes.get('clock_reads', 0)
        c.rec('C18', 'now(): exactly one clock reading', reads == 1, f"{reads} readings")
        if c.key.startswith('date::Date'):
            ok, why = _now_date_part(c, st, cnt, 1)
            c.rec('C18', 'Date::now: the current local (year, month, day)', ok, why)
        else:
            ok, why = _now_date_part(c, st, cnt, D_US)
            c.rec('C18', 'now(): date part is the current local (year, month, day)', ok, why)
            names = {}
            for s, k in cnt.terms:
                d = SYMTAB.syms[s].data
                if d and d[0] == 'chrono':
                    names[d[1]] = k
            want = {'day': D_US, 'hour': H_US, 'minute': MI_US, 'second': S_US}
            if c.key.startswith('timestamp'):
                want['micros'] = 1
            c.rec('C18', 'now(): hour/minute/second (and microseconds) flow to their own units', all(names.get(a) == b for a, b in want.items())
                  and ('micros' in names) == ('micros' in want), f"{names}")
    c.rec('C18', 'now(): some path returns Ok', n > 0)


@contract(r'^<(timestamp::Timestamp|oracle::Date) as std::convert::TryFrom<time::Time>>::try_from$')
def _(c):
    n = 0
    t = c.argc(0)
    for (st, ret) in c.exits:
        kind, v = c.split_result(ret)
        if kind != 'ok':
            continue
        n += 1
        cnt = c.count(v)
        reads = st.notes.get('clock_reads', 0)
        c.rec('C18', 'TryFrom<Time>: exactly one clock reading', reads == 1, f"{reads} readings")
        rest = cnt
        hit = _find_sym(cnt, 'jd')
        day = None
        for s, k in cnt.terms:
            d = SYMTAB.syms[s].data
            if d and d[0] == 'chrono' and d[1] == 'day':
                day = (s, k)
        ok = hit is not None and day is not None and hit[1] == D_US and day[1] == D_US
        why = f"{cnt!r}"
        if ok:
            ykey, mkey = hit[2].data[1]
            ok = _chrono_sym(Form(ykey[0], ykey[1]), 'year') and _chrono_sym(Form(mkey[0], mkey[1]), 'month')
            rest = cnt.sub(Form.sym(hit[0], D_US)).sub(Form.sym(day[0], D_US)).addc(E_J * D_US)
        c.rec('C18', 'TryFrom<Time>: date part is the current local date', ok, why)
        if c.key.startswith('<timestamp'):
            c.rec('C18', 'TryFrom<Time>: time of day is the argument', rest == t, f"{rest!r} vs {t!r}")
        else:
            a, b = st.num.rng2(t.sub(rest))
            c.rec('C18', 'TryFrom<Time> for OracleDate: time of day is the argument floored to the second',
                  a >= 0 and b < S_US and st.num.residue(rest, S_US) == 0, f"t - part in [{a}, {b}]")
    c.rec('C18', 'TryFrom<Time>: some path returns Ok', n > 0)


# ----------------------------------------------------------------------------- C05: the assembly step T::try_from(NaiveDateTime)
def _dt_fields(c):
    v = c.args[0]
    idx = c.I.spec.ndt_fields(v)
    fs = v.variants[0]
    return {k: fs[i] for k, i in idx.items()}


@contract(r' as std::convert::TryFrom<format::NaiveDateTime>>::try_from$')
def _(c):
    f = _dt_fields(c)
    y, mo, d, h, mi, s, us = [f[k].form for k in ('year', 'month', 'day', 'hour', 'minute', 'sec', 'usec')]
    tname = c.key[1:].split(' as ')[0]
    n_ok = 0
    for (st, ret) in c.exits:
        kind, v = c.split_result(ret)
        if kind == 'err':
            c.rec('C05', f"assembly of {tname}: fractional seconds never make the parse fail (a rounded-up fraction carries)",
                  v != 'InvalidFraction', f"returns {v}")
            # an error must be justified: a field outside its own range, or the assembled value outside the range of the type
            if tname in ('time::Time', 'interval::IntervalDT', 'interval::IntervalYM'):
                if tname == 'interval::IntervalYM':
                    mag = y.scale(12).add(mo)
                    pos = [('cmp', 'ge', y, Form.const(0)), ('cmp', 'le', mo, Form.const(11)), ('cmp', 'le', mag, Form.const(INV[tname][1]))]
                    neg = [('cmp', 'le', y, Form.const(0)), ('cmp', 'le', mo, Form.const(11)), ('cmp', 'le', y.neg().scale(12).add(mo), Form.const(INV[tname][1]))]
                    alts = [pos, neg]
                else:
                    tod_ = h.scale(H_US).add(mi.scale(MI_US)).add(s.scale(S_US)).add(us)
                    fields = [('cmp', 'le', h, Form.const(23)), ('cmp', 'le', mi, Form.const(59)), ('cmp', 'le', s, Form.const(59)),
                              ('cmp', 'le', us, Form.const(1_000_000))]
                    if tname == 'time::Time':
                        alts = [fields + [('cmp', 'le', tod_, Form.const(INV[tname][1]))]]
                    else:
                        alts = [fields + [('cmp', 'le', d.scale(D_US).add(tod_), Form.const(INV[tname][1]))]]
                feas = None
                for preds in alts:
                    cur = [st.copy()]
                    for p_ in preds:
                        nxt = []
                        for s2 in cur:
                            nxt.extend(c.I.assume(s2, p_, True))
                        cur = nxt
                    if cur:
                        fs_ = cur[0]
                        feas = ', '.join(f"{nm}={list(fs_.num.rng(fm))}" for nm, fm in (('day', d), ('hour', h), ('minute', mi), ('sec', s), ('usec', us), ('year', y), ('month', mo)) if fm.terms)
                        break
                c.rec('C05', f"assembly of {tname}: an error only for a field outside its range or a value outside the range of the type",
                      feas is None, f"returns {v} although every field and the assembled value can be in range, e.g. with {feas}")
            continue
        if kind != 'ok':
            c.rec('C05', f"assembly of {tname}: result shape", False, f"{ret!r}")
            continue
        n_ok += 1
        cnt = c.count(v)
        tod = h.scale(H_US).add(mi.scale(MI_US)).add(s.scale(S_US)).add(us)
        if tname == 'date::Date':
            hit = _ymd_of_result(cnt)
            ok = hit is not None and hit[0] == y and hit[1] == mo and Form.const(hit[2]) == d if hit and not d.terms else False
            if hit is None:
                jd = _find_sym(cnt, 'jd')
                ok = jd is not None and jd[2].data[1] == (y.key(), mo.key()) and cnt.sub(Form.sym(jd[0])).addc(E_J) == d
            c.rec('C05', 'assembly of Date: value is the checked (year, month, day)', ok, f"{cnt!r}")
        elif tname == 'time::Time':
            c.rec('C05', 'assembly of Time: H*h + Mi*m + S*s + usec (a fraction of 1000000 carries)', st.num.eq0(cnt.sub(tod)), f"{cnt!r} vs {tod!r}")
        elif tname in ('timestamp::Timestamp', 'oracle::Date'):
            jds = SYMTAB.cons.get(('op', 'jd', (y.key(), mo.key())))
            ok = jds is not None
            why = f"{cnt!r}"
            if ok:
                exact = Form.sym(jds, D_US).add(d.scale(D_US)).addc(-E_J * D_US).add(tod)
                if tname == 'timestamp::Timestamp':
                    ok = st.num.eq0(cnt.sub(exact))
                else:
                    a, b = st.num.rng2(exact.sub(cnt))
                    ok = a >= 0 and b < S_US and st.num.residue(cnt, S_US) == 0
                why = f"{cnt!r} vs {exact!r}"
            c.rec('C05', f"assembly of {tname}: D*days(y,m,d) + time of day", ok, why)
        elif tname == 'interval::IntervalYM':
            neg = f['negative']
            mag = y.scale(12).add(mo)
            # negative intervals: the parsed year is negative, the month is added to its magnitude
            okp = st.num.eq0(cnt.sub(mag))
            okn = st.num.eq0(cnt.add(y.neg().scale(12).add(mo)))
            c.rec('C05', 'assembly of IntervalYM: +/-(12*|year| + month)', okp or okn, f"{cnt!r}")
        elif tname == 'interval::IntervalDT':
            mag = d.scale(D_US).add(tod)
            c.rec('C05', 'assembly of IntervalDT: +/-(D*day + time of day, fraction carried)', st.num.eq0(cnt.sub(mag)) or st.num.eq0(cnt.add(mag)), f"{cnt!r}")
    c.rec('C05', f"assembly of {tname}: some path returns Ok", n_ok > 0)


# ----------------------------------------------------------------------------- C19: the picture lexer
@contract(r"^format::FormatParser::<'_>::next$")
def _(c):
    from .lexer import lexer_contract
    lexer_contract(c)


@contract(r'^format::Formatter::try_new::<&str>$')
def _(c):
    from .lexer import try_new_contract
    try_new_contract(c)


# ----------------------------------------------------------------------------- C01: calendar rules
def _leap_spec(c, st, y):
    """three-valued evaluation of  4|y and (100 does not divide y or 400|y)  in a state"""
    def div(k):
        r = c.I.int_binop(st, 'Rem', VInt(y, 'i32'), VInt(F(k), 'i32'), 'i32')
        return c.I.decide(st, ('cmp', 'eq', r, F(0)), deep=True)
    a4, a100, a400 = div(4), div(100), div(400)
    if a4 is False:
        return False
    if a4 is True:
        if a100 is False or a400 is True:
            return True
        if a100 is True and a400 is False:
            return False
    return None


@contract(r'^common::is_leap_year$')
def _(c):
    y = c.args[0].form
    seen = set()
    exits = []
    for (st, ret) in c.exits:
        if isinstance(ret, VBool) and ret.val is None:
            p = c.I.bool_pred(ret)
            for truth in (True, False):
                for s2 in c.I.assume(st.copy(), p, truth):
                    exits.append((s2, VBool(truth)))
        else:
            exits.append((st, ret))
    for (st, ret) in exits:
        want = _leap_spec(c, st, y)
        got = ret.val if isinstance(ret, VBool) else None
        seen.add(got)
        c.rec('C01', 'is_leap_year: every 4 years except century years not divisible by 400', want is not None and got == want,
              f"path returns {got}; the Gregorian rule gives {want} under the path condition")
    c.rec('C01', 'is_leap_year: both answers reachable', seen == {True, False}, f"{seen}")


def _ymd_list(c, name, bool_result=False, unit_result=False):
    for (st, ret) in c.exits:
        y, m, d = [c.args[i].form for i in range(3)]
        dom = Form.sym(c.I.spec.dom_sym(y, m))
        spec = [(('or', ('cmp', 'lt', y, F(1)), ('cmp', 'gt', y, F(9999))), 'DateOutOfRange'),
                (('or', ('cmp', 'lt', m, F(1)), ('cmp', 'gt', m, F(12))), 'InvalidMonth'),
                (('or', ('cmp', 'lt', d, F(1)), ('cmp', 'gt', d, F(31))), 'InvalidDay'),
                (('cmp', 'gt', d, dom), 'InvalidDate')]
        expect = None
        for p, e in spec:
            dd = c.I.decide(st, p, deep=True)
            if dd is None:
                expect = '?'
                break
            if dd:
                expect = e
                break
        if bool_result:
            got = 'accept' if (isinstance(ret, VBool) and ret.val is True) else ('reject' if isinstance(ret, VBool) and ret.val is False else '?')
            want = 'accept' if expect is None else ('reject' if expect != '?' else '?')
            c.rec('C01', f"{name}: accepts exactly the real dates of years 1..=9999 (decision list L_ymd)", got == want and got != '?', f"path gives {got}, rule gives {want}")
            continue
        kind, v = c.split_result(ret)
        if kind == 'err':
            c.rec('C01', f"{name}: error kind follows the decision list L_ymd", v == expect, f"returned {v}, rule gives {expect}")
        elif kind == 'ok':
            c.rec('C01', f"{name}: accepts exactly the real dates of years 1..=9999 (decision list L_ymd)", expect is None, f"accepted where the rule gives {expect}")
            if not unit_result:
                cnt = c.count(v)
                jds = SYMTAB.cons.get(('op', 'jd', (y.key(), m.key())))
                ok = jds is not None and cnt == Form.sym(jds).add(d).addc(-E_J)
                c.rec('C01', f"{name}: the accepted date is the day number of (y, m, d)", ok, f"{cnt!r}")
    c.rec('C01', f"{name}: has exits", len(c.exits) > 0)


@contract(r'^date::Date::try_from_ymd$')
def _(c):
    _ymd_list(c, 'Date::try_from_ymd')


@contract(r'^date::Date::is_valid$')
def _(c):
    _ymd_list(c, 'Date::is_valid', bool_result=True)


@contract(r'^date::Date::validate_ymd$')
def _(c):
    _ymd_list(c, 'Date::validate_ymd', unit_result=True)


@contract(r'^common::days_of_month$')
def _(c):
    y, m = c.args[0].form, c.args[1].form
    for (st, ret) in c.exits:
        f = ret.form
        ok = False
        why = f"{f!r}"
        if len(f.terms) == 1 and f.c == 0:
            data = SYMTAB.syms[f.terms[0][0]].data
            # post_call replaced the lookup by dom(y, m) only if the body's value range was 28..=31; look at the raw lookup
            ok = data is not None and data[0] in ('dom', 'tbl')
        c.rec('C01', 'days_of_month: a table lookup by (leap year?, month)', ok, why)


@contract(r'^date::Date::day_of_week$')
def _(c):
    d = c.argc(0)
    seen = set()
    for (st, ret) in c.exits:
        if not (isinstance(ret, VAdt) and ret.single() is not None):
            c.rec('C01', 'day_of_week: weekday decided on the path', False, f"{ret!r}")
            continue
        t = c.facts.types[ret.ty]
        w = [x['discr'] for x in t['variants'] if x['idx'] == ret.single()][0]
        seen.add(w)
        res = st.num.residue(d.addc(4 - (w - 1)), 7)
        c.rec('C01', 'day_of_week: 1970-01-01 is a Thursday and the weekday advances by one per day', res == 0,
              f"weekday number {w} returned where (days + 4 - {w - 1}) mod 7 = {res}")
    c.rec('C01', 'day_of_week: all seven weekdays are produced', seen == set(range(1, 8)), f"{sorted(seen)}")


# ----------------------------------------------------------------------------- C16: fractional days on the Oracle-style date
@contract(r'^(oracle::Date::add_days|oracle::Date::sub_days|oracle::<impl timestamp::Timestamp>::oracle_add_days|oracle::<impl timestamp::Timestamp>::oracle_sub_days)$')
def _(c):
    """result = (timestamp result of add_days) rounded to the nearest second: r = 0 (mod 1s) and 2*|r - x| <= 1s,
    where x = count + cast(round(days * D)) is the only float-derived quantity"""
    n = 0
    for (st, ret) in c.exits:
        kind, v = c.split_result(ret)
        if kind != 'ok':
            continue
        n += 1
        r = c.count(v)
        res = st.num.residue(r, S_US)
        c.rec('C16', 'OracleDate +/- fractional days: result on a whole second', res == 0, f"{r!r}: residue {res}")
        # locate x: the unique f2i symbol among the symbols reachable from r
        f2i = None
        stack = [r]
        seen = set()
        while stack:
            f = stack.pop()
            for s_, k in f.terms:
                if s_ in seen:
                    continue
                seen.add(s_)
                info = SYMTAB.syms[s_]
                if info.data and info.data[0] == 'f2i':
                    f2i = s_
                if info.kind == 'div':
                    stack.append(info.data[0])
        if f2i is None:
            c.rec('C16', 'OracleDate +/- fractional days: nearest second of the timestamp result', False, f"{r!r} is not derived from the rounded microsecond offset")
            continue
        base = c.argc(0)
        if 'oracle_' in c.key:
            # the Timestamp receiver is first floored to the second
            x = None
        x_forms = []
        for s_ in seen:
            pass
        # x = (floored) count + offset; recover it as r's dividend when r = S*Div(x', S) shapes are absent: use bounds on r - (base + f2i)
        cand = base.add(Form.sym(f2i))
        a, b = st.num.rng2(r.sub(cand).scale(2))
        if 'oracle_' in c.key:
            # receiver floored by up to 999999 us before the offset is added
            ok = a >= -S_US - 2 * (S_US - 1) and b <= S_US
        else:
            ok = a >= -S_US and b <= S_US
        c.rec('C16', 'OracleDate +/- fractional days: nearest second of the timestamp result (2*|r - x| <= 1s)', ok, f"2*(r - x) in [{a}, {b}]")
    c.rec('C16', 'OracleDate +/- fractional days: some path returns Ok', n > 0)


@contract(r'^oracle::Date::sub_date$')
def _(c):
    for (st, ret) in c.exits:
        ok = isinstance(ret, VFloat) and ret.expr is not None and ret.expr[0] == 'div' and ret.expr[1] is not None and ret.expr[1][0] == 'i2f' \
            and ret.expr[1][1] == c.argc(0).sub(c.argc(1)) and ret.expr[2] is not None and ret.expr[2][0] == 'i2f' and ret.expr[2][1] == F(D_US)
        c.rec('C16', 'OracleDate::sub_date = (u(a) - u(b)) / D in days', ok, f"{ret!r}")
