"""Stage E1l: the week units of Timestamp / Oracle-style date rounding hand the date-level rule the calendar date NEAREST
to the instant - "for timestamps noon of the fourth day" (C11; shared by C17).

`Timestamp::round_week / round_iso_week / round_month_start_week / round_sunday_start_week` are glue: split the instant,
add one day from 12:00 on, apply the date-level rule (decided by E1's Date contracts), clear the time.  The Oracle-style
date delegates to the Timestamp unit.  E1 checks the date-level rule, "time cleared" and the identity of the delegate
*when there is one*; nothing said which date reaches the date-level rule (C11-m7 of round 5: the Oracle-style date
called the Date unit on `self.date()` - every piece right, the noon carry gone).

The stage runs each of the eight roots with the date-level units (`<date::Date as Round>::round_*` and their
`*_internal` twins) replaced by a recorder: at the call, with u the instant and a the day number passed,

    W-glue    -D/2 < D*a - u <= D/2          (the day handed over is floor(u/D), plus one exactly from 12:00 on)

must hold in the calling state (interval of the linear form `D*a - u`).  A root that reaches no date-level unit is
an "undecided" note (a direct implementation would need its own threshold rule); so is a root that cannot be driven.

Not in pipeline.E1_SOURCES: own cache file.
"""
from __future__ import annotations

import json
import re
import sys

from .facts import AnalysisIncomplete, Facts

D_US = 86_400_000_000
ROOTS = re.compile(r'^<(timestamp::Timestamp|oracle::Date) as Round>::round_(week|iso_week|month_start_week|sunday_start_week)$')
DATE_UNIT = re.compile(r'^(<date::Date as Round>::round_(week|iso_week|month_start_week|sunday_start_week)|date::Date::round_(week|month_start_week)_internal)$')


def run(facts_path):
    from .contracts import Ctx
    from .interp import Interp
    from .models import Models
    from .spec import Spec
    f = Facts(facts_path)
    spec = Spec(f)
    I = Interp(f, spec, Models(f))
    out = {'records': [], 'notes': [], 'roots': 0, 'calls': 0}
    orig = I.call_local
    cur = {}

    def hooked(st, key, args):
        if DATE_UNIT.match(key) and cur.get('u') is not None:
            ctx = Ctx(I, key, args, [(st, None)])
            a = ctx.count(ctx.arg(0))
            if a is None:
                cur['notes'].append(f"date-level unit {key} called with {args[0]!r}")
            else:
                lo, hi = st.num.rng(a.scale(D_US).sub(cur['u']))
                cur['calls'].append((key, lo, hi))
            body = f.body(key)
            return [(st, I.top(st, body['locals'][0]['ty'], 'unit'))]
        return orig(st, key, args)

    I.call_local = hooked
    for key in sorted(k for k in spec.root_keys() if ROOTS.match(k)):
        out['roots'] += 1
        cur.clear()
        cur.update({'u': None, 'calls': [], 'notes': []})
        try:
            body = f.body(key)
            from .interp import State
            st = State()
            args = spec.root_args(I, st, key, body, None)
            ctx = Ctx(I, key, args, [(st, None)])
            cur['u'] = ctx.count(ctx.arg(0))
            if cur['u'] is None:
                out['notes'].append(f"{key}: receiver {args[0]!r} carries no count; undecided")
                continue
            I.root = key
            I.events = []
            I.steps_root = I.steps
            hooked(st, key, args) if False else orig(st, key, args)
        except AnalysisIncomplete as e:
            out['notes'].append(f"{key}: not analysable ({str(e)[:160]}); undecided")
            continue
        except Exception as e:
            out['notes'].append(f"{key}: the stage could not drive the root ({type(e).__name__}: {str(e)[:160]}); undecided")
            continue
        for t in cur['notes']:
            out['notes'].append(f"{key}: {t}; undecided")
        if not cur['calls']:
            out['notes'].append(f"{key}: reaches no date-level week unit (a direct implementation is not decided here)")
            continue
        for (callee, lo, hi) in cur['calls']:
            out['calls'] += 1
            ok = lo > -(D_US // 2) and hi <= D_US // 2
            out['records'].append({'prop': 'C11', 'root': key, 'clause': 'W-glue: the date handed to the date-level week rule is the calendar date nearest to the instant (one day later from 12:00 on)',
                                   'ok': ok, 'detail': '' if ok else f"{callee} receives day a with D*a - u in [{lo}, {hi}] (must lie in ({-(D_US // 2)}, {D_US // 2}])"})
    seen, recs = set(), []
    for r in out['records']:
        k = (r['root'], r['ok'], r['detail'])
        if k not in seen:
            seen.add(k)
            recs.append(r)
    out['records'] = recs
    return out


def main():
    out = run(sys.argv[1])
    with open(sys.argv[2], 'w') as fh:
        json.dump(out, fh, indent=1, default=str)
    print(f"weekglue: roots {out['roots']} calls {out['calls']} records {len(out['records'])} refuted {sum(1 for r in out['records'] if not r['ok'])} notes {len(out['notes'])}")
    for r in out['records']:
        if not r['ok']:
            print('  REFUTED', r['root'], r['detail'])
    for t in out['notes']:
        print('  note', t)


if __name__ == '__main__':
    main()
