"""Abstract values of engine E1.  All values are treated as immutable."""
from __future__ import annotations

from .lin import Form


class Val:
    __slots__ = ()


class VInt(Val):
    __slots__ = ('form', 'ty')

    def __init__(self, form: Form, ty: str):
        self.form = form
        self.ty = ty

    def __repr__(self):
        return f"{self.form!r}:{self.ty}"


class VBool(Val):
    """val: True / False / None (unknown); pred: predicate AST or None
    pred forms: ('cmp', op, FormA, FormB) op in lt le gt ge eq ne | ('not', p) | ('and', p, q) | ('or', p, q)
                ('fcls', VFloat, cls) | ('feq0', VFloat)"""
    __slots__ = ('val', 'pred', 'sym')

    def __init__(self, val, pred=None, sym=None):
        self.val = val
        self.pred = pred
        self.sym = sym      # 0/1-valued symbol shared by all copies of an undecided bool

    def __repr__(self):
        return f"bool({self.val})"


class VFloat(Val):
    """cls: frozenset subset of {'fin','inf','nan'}; expr: structural description (tuple AST)"""
    __slots__ = ('cls', 'expr', 'rng')
    ALL = frozenset(('fin', 'inf', 'nan'))

    def __init__(self, cls=None, expr=None, rng=None):
        self.cls = VFloat.ALL if cls is None else cls
        self.expr = expr
        self.rng = rng      # (lo, hi) python floats bounding the finite values, or None

    def __repr__(self):
        return f"f64{sorted(self.cls)}<{self.expr}>"


class VAdt(Val):
    """variants: dict variant_idx -> tuple(field values). A struct has the single variant 0."""
    __slots__ = ('ty', 'variants')

    def __init__(self, ty: str, variants: dict):
        self.ty = ty
        self.variants = variants

    def single(self):
        if len(self.variants) == 1:
            return next(iter(self.variants))
        return None

    def __repr__(self):
        return f"{self.ty}{{" + ', '.join(f"{k}:{v}" for k, v in self.variants.items()) + "}"


class VTuple(Val):
    __slots__ = ('elems',)

    def __init__(self, elems):
        self.elems = tuple(elems)

    def __repr__(self):
        return "(" + ', '.join(map(repr, self.elems)) + ")"


class VArray(Val):
    """elems: tuple of values (concrete length)"""
    __slots__ = ('elems', 'ety', 'name')

    def __init__(self, elems, ety=None, name=None):
        self.elems = tuple(elems)
        self.ety = ety
        self.name = name      # def path of the constant table this array is (a row of), if any

    def __repr__(self):
        return f"[{len(self.elems)} elems]"


class VRef(Val):
    """reference / raw pointer to a location: root + path.
    root: ('loc', frame_id, local) | ('obj', obj_id) | ('val', Val)  (the last: pointer to an immutable constant value)
    path: tuple of steps ('f', i) | ('v', idx) | ('i', int)"""
    __slots__ = ('root', 'path')

    def __init__(self, root, path=()):
        self.root = root
        self.path = tuple(path)

    def __repr__(self):
        return f"&{self.root}{list(self.path)}"


class VSlice(Val):
    """fat pointer to a run of elements (also used for &str).
    base: hashable id of the backing sequence (('obj', n) / ('cstr', text) / ('carr', id)) or None
    off, len: Forms (element index of the first element inside base, number of elements)
    elem: ('bytes', lo, hi) element class for u8 data | ('vals', VArray) backing constant array | ('top', ty)
    """
    __slots__ = ('base', 'off', 'len', 'elem', 'ety')

    def __init__(self, base, off: Form, length: Form, elem, ety='u8'):
        self.base = base
        self.off = off
        self.len = length
        self.elem = elem
        self.ety = ety

    def __repr__(self):
        return f"slice<{self.base}>[off={self.off!r}, len={self.len!r}, {self.elem if self.elem[0] != 'vals' else 'vals'}]"


class VFn(Val):
    """function items / fn pointers: set of instance keys (with 'local' flags in the table)"""
    __slots__ = ('keys',)

    def __init__(self, keys):
        self.keys = frozenset(keys)

    def __repr__(self):
        return f"fn{sorted(self.keys)}"


class VClosure(Val):
    __slots__ = ('key', 'upvars')

    def __init__(self, key, upvars):
        self.key = key
        self.upvars = tuple(upvars)

    def __repr__(self):
        return f"closure<{self.key}>"


class VOpaque(Val):
    """anything we do not model structurally; tag + payload let models keep a little state"""
    __slots__ = ('ty', 'tag', 'data', 'taint')

    def __init__(self, ty, tag=None, data=None, taint=frozenset()):
        self.ty = ty
        self.tag = tag
        self.data = data
        self.taint = taint

    def __repr__(self):
        return f"opaque<{self.tag or self.ty}>"


class VUninit(Val):
    __slots__ = ()

    def __repr__(self):
        return "uninit"


UNINIT = VUninit()
UNIT = VTuple(())
