#!/usr/bin/env python3
"""Run engine E1 over every root of a fact file (in parallel) and write one result file.

usage: python3 -m sda.analyze <facts.json> <out.json> [--jobs N] [--only PATTERN]
"""
from __future__ import annotations

import json
import multiprocessing as mp
import os
import sys
import time
import traceback

from . import kernel
from .contracts import run_contracts
from .facts import AnalysisIncomplete, Facts
from .interp import Interp
from .models import Models
from .spec import Spec

_G = {}


def _init(path):
    f = Facts(path)
    spec = Spec(f)
    models = Models(f)
    I = Interp(f, spec, models)
    I.run_kernel()
    _G['I'] = I
    _G['kernel_obls'] = _dump_obls(I)
    I.obls = {}


def _dump_obls(I):
    out = []
    for o in I.obls.values():
        out.append({'kind': o.kind, 'fn': o.fn, 'bb': o.bb, 'desc': o.desc, 'span': o.span, 'visits': o.visits,
                    'fails': o.fails, 'sample': o.sample, 'roots': sorted(o.roots)[:400], 'nroots': len(o.roots),
                    'fail_roots': sorted(o.roots)[:400] if o.fails else []})
    return out


def _summ_events(I):
    ev = {'clock': [], 'lazy': [], 'serde': [], 'cmp': 0, 'write': 0}
    for e in I.events:
        if e[0] == 'clock':
            ev['clock'].append({'fn': e[1], 'chain': e[2]})
        elif e[0] == 'lazy':
            ev['lazy'].append(e[1])
        elif e[0] == 'serde':
            ev['serde'].append({'decl': e[1], 'targs': e[3], 'args': [repr(a)[:120] for a in e[2]]})
        elif e[0] == 'cmp':
            ev['cmp'] += 1
        elif e[0] == 'write':
            ev['write'] += 1
    return ev


def _task(kv):
    key, variant = kv
    I = _G['I']
    I.obls = {}
    I.unmodelled = {}
    t0 = time.time()
    s0 = I.steps
    rec = {'root': key, 'variant': variant, 'incomplete': None, 'contracts': [], 'exits': 0}
    try:
        if variant is not None and variant.startswith('kclass:'):
            I.root = 'kernel:classes'
            I.events = []
            I.steps_root = I.steps
            rec['kclass'] = kernel.run_classes(I, variant)
            res = []
        elif variant is not None and variant.startswith('internal'):
            st, args, res = I.run_internal(key, variant.split(':', 1)[1] if ':' in variant else None)
        else:
            st, args, res = I.run_root(key, variant)
        rec['exits'] = len(res)
        if 'kclass' not in rec:
            rec['contracts'] = run_contracts(I, key, args, res, variant)
            rec['extra'] = I.spec.root_extra(I, key, args, res)
    except AnalysisIncomplete as e:
        rec['incomplete'] = str(e)
    except RecursionError:
        rec['incomplete'] = 'python recursion limit'
    except Exception as e:
        rec['incomplete'] = f"internal error: {type(e).__name__}: {e} :: " + traceback.format_exc()[-600:]
    rec['time'] = round(time.time() - t0, 2)
    rec['steps'] = I.steps - s0
    rec['obls'] = _dump_obls(I)
    rec['unmodelled'] = dict(I.unmodelled)
    rec['events'] = _summ_events(I)
    rec['axioms'] = dict(I.spec.axioms_used)
    I.spec.axioms_used = {}
    return rec


def _weight(k):
    if 'Formatter::parse' in k:
        return 0
    if 'format' in k or 'serialize' in k or 'parse' in k:
        return 1
    if 'round' in k or 'trunc' in k:
        return 2
    return 3


def analyze(facts_path, out_path, jobs=None, only=''):
    t0 = time.time()
    f = Facts(facts_path)
    spec = Spec(f)
    roots = [k for k in spec.root_keys() if only in k]
    roots.sort(key=_weight)
    roots = [(k, v) for k in roots for v in spec.root_variants(k)]
    roots += [(k, 'internal' + (':' + v if v else '')) for k in spec.internal_roots() if only in k for v in spec.internal_variants(k)]
    # the class runs depend only on the calendar code (date.rs / common.rs bodies and constants) and on the analyser:
    # their results are reused across trees in which that code is byte-identical (content-addressed cache)
    kcached = None
    kpath = None
    if only == 'calendar:all' or not only or only in 'kernel:classes':
        ktasks = kernel.class_tasks(f, full=(only == 'calendar:all'))
        if ktasks:
            kpath = _kcache_path(f, only == 'calendar:all')
            if os.path.exists(kpath):
                try:
                    with open(kpath) as fh:
                        kcached = json.load(fh)
                except Exception:
                    kcached = None
        if only == 'calendar:all':
            roots = []
        if kcached is None:
            roots += [('kernel:classes', v) for v in ktasks]
    jobs = jobs or max(1, min(15, (os.cpu_count() or 2) - 1))
    sys.setrecursionlimit(20000)
    results = []
    if jobs == 1:
        _init(facts_path)
        for k in roots:
            results.append(_task(k))
        kernel_obls = _G['kernel_obls']
    else:
        ctx = mp.get_context('fork')
        with ctx.Pool(jobs, initializer=_init, initargs=(facts_path,)) as pool:
            for r in pool.imap_unordered(_task, roots, chunksize=1):
                results.append(r)
            kernel_obls = pool.apply(_kernel_obls)
    # calendar kernel by residue classes: one pseudo root carrying the C01 formula contracts
    kc = [r for r in results if 'kclass' in r]
    if kc and kpath and not any(r['incomplete'] for r in kc):
        try:
            os.makedirs(os.path.dirname(kpath), exist_ok=True)
            with open(kpath + f'.{os.getpid()}.tmp', 'w') as fh:
                json.dump(kc, fh)
            os.replace(kpath + f'.{os.getpid()}.tmp', kpath)
        except OSError:
            pass
    if kcached is not None:
        kc = kcached
    if kc:
        results = [r for r in results if 'kclass' not in r]
        inc = [r['incomplete'] for r in kc if r['incomplete']]
        agg = {'root': 'kernel:classes', 'variant': None, 'incomplete': inc[0] if inc else None, 'contracts': [], 'exits': 0,
               'time': round(sum(r['time'] for r in kc), 2), 'steps': sum(r['steps'] for r in kc), 'obls': [o for r in kc for o in r['obls']],
               'unmodelled': {}, 'events': kc[0]['events'], 'axioms': {}, 'extra': {'classes': sum(len(r['kclass']['rows']) for r in kc if r.get('kclass'))}}
        for r in kc:
            for k, v in r['unmodelled'].items():
                agg['unmodelled'][k] = agg['unmodelled'].get(k, 0) + v
        if not inc:
            agg['contracts'] = kernel.contract([r['kclass'] for r in kc])
            # the class runs cover every input of the kernel's precondition: they supersede the obligations of the
            # path-insensitive out-of-line run inside the two kernel functions
            kernel_obls = [o for o in kernel_obls if o['fn'] not in (kernel.D2J, kernel.J2D)]
        results.append(agg)
    # merge obligations
    merged = {}
    for src in [{'obls': kernel_obls, 'root': 'kernel'}] + results:
        for o in src['obls']:
            k = (o['kind'], o['fn'], o['bb'], o['desc'])
            m = merged.get(k)
            if m is None:
                merged[k] = dict(o)
            else:
                m['visits'] += o['visits']
                m['fails'] += o['fails']
                m['nroots'] += o['nroots']
                if m['sample'] is None and o['sample'] is not None:
                    m['sample'] = o['sample']
                m['roots'] = sorted(set(m['roots']) | set(o['roots']))[:400]
                m['fail_roots'] = sorted(set(m.get('fail_roots', [])) | set(o.get('fail_roots', [])))[:400]
    unmod = {}
    axioms = {}
    for r in results:
        for k, v in r['unmodelled'].items():
            unmod[k] = unmod.get(k, 0) + v
        for k, v in r['axioms'].items():
            axioms[k] = axioms.get(k, 0) + v
    out = {
        'facts': facts_path,
        'features': f.features,
        'roots': [{k: v for k, v in r.items() if k not in ('obls',)} for r in sorted(results, key=lambda r: (r['root'], r['variant'] or ''))],
        'obligations': sorted(merged.values(), key=lambda o: (o['fn'], o['bb'], o['kind'], o['desc'])),
        'unmodelled': unmod,
        'axioms_used': axioms,
        'all_root_items': len(f.roots),
        'wall_s': round(time.time() - t0, 1),
    }
    with open(out_path + '.tmp', 'w') as fh:
        json.dump(out, fh)
    os.replace(out_path + '.tmp', out_path)
    return out


def _kcache_path(f, full):
    """cache file for the class runs: keyed by the analyser and by everything the four calendar entry points can reach
    (bodies through resolved callees and function constants, named constants, the types involved)"""
    import hashlib
    import re
    from . import pipeline
    h = hashlib.sha256()
    h.update(pipeline.e1_key().encode())
    h.update(b'full' if full else b'quick')
    h.update(json.dumps([f.raw.get('overflow_checks'), f.raw.get('debug_assertions'), sorted(f.features)]).encode())
    consts = {c['def']: c for c in f.raw.get('consts', [])}
    statics = {s_['def']: s_ for s_ in f.raw.get('statics', [])}
    todo = [kernel.D2J, kernel.J2D, kernel.ISO_T, kernel.ISO_R, kernel.DOY]
    seen = set()
    rx_key = re.compile(r'"key": "((?:[^"\\]|\\.)*)"')
    rx_ref = re.compile(r'"ref": "((?:[^"\\]|\\.)*)"')
    while todo:
        k = todo.pop()
        if k in seen:
            continue
        seen.add(k)
        obj = f.bodies.get(k) or consts.get(k) or statics.get(k)
        if obj is None:
            continue
        text = json.dumps(obj, sort_keys=True)
        h.update(k.encode())
        h.update(text.encode())
        for m in rx_key.finditer(text):
            todo.append(json.loads('"' + m.group(1) + '"'))
        for m in rx_ref.finditer(text):
            todo.append(json.loads('"' + m.group(1) + '"'))
    for t in sorted(f.types):
        if t.startswith(('date::', 'common::', 'error::', 'std::result::Result<date::')):
            h.update(json.dumps(f.types[t], sort_keys=True).encode())
    return os.path.join(pipeline.WORK, 'kcache', h.hexdigest()[:24] + '.json')


def _kernel_obls():
    return _G['kernel_obls']


def main():
    a = sys.argv[1:]
    jobs = None
    only = ''
    if '--jobs' in a:
        jobs = int(a[a.index('--jobs') + 1])
    if '--only' in a:
        only = a[a.index('--only') + 1]
    out = analyze(a[0], a[1], jobs, only)
    inc = [r for r in out['roots'] if r['incomplete']]
    fails = [o for o in out['obligations'] if o['fails']]
    cf = [c for r in out['roots'] for c in r['contracts'] if not c['ok']]
    print(f"roots {len(out['roots'])} incomplete {len(inc)} obligations {len(out['obligations'])} failing {len(fails)} "
          f"contract records {sum(len(r['contracts']) for r in out['roots'])} failing {len(cf)} wall {out['wall_s']}s")
    for r in inc:
        print("INCOMPLETE", r['root'], r['incomplete'][:300])
    for o in fails:
        print(f"FAIL {o['kind']} {o['fn']} bb{o['bb']} {o['desc']} @ {o['span']} [{o['fails']}/{o['visits']}] root {o['sample']['root']}\n      {o['sample']['detail'][:300]}")
    for c in cf:
        print(f"CONTRACT {c['prop']} {c['root']}: {c['clause']}\n      {c['detail'][:300]}")
    if out['unmodelled']:
        print("UNMODELLED-CALL", out['unmodelled'])
    print("slowest:", sorted(((r['time'], r['root']) for r in out['roots']), reverse=True)[:6])


if __name__ == '__main__':
    main()
