"""Stage E1j: `format::parse_number(text, max_len)` returns the number the digits denote (C05: unpadded numbers, a
leading '+'; shared by C06).

Every numeric field of the parser (year, month, day, hour, minute, second, day of year, interval days) is read by this
function.  It is run by E1's interpreter per class: sign prefix none / '+' / '-', `max_len` = 1..9, on a slice of the
prefix, `max_len` symbolic digit bytes and one arbitrary byte.  On every `Ok((negative, value, rest))` exit, with k the
number of digit bytes consumed (from the offset of `rest`):

    N-count   1 <= k <= max_len                      (an empty digit run is not a number; never more than the field width)
    N-value   value == +/- sum (b_i - 48) * 10^(k-1-i)      (linear identity, `Num.eq0`; the sign from the prefix)
    N-sign    negative == (prefix is '-')

and per class `N-accept`: some exit returns Ok with k = max_len (digit text of full width is accepted - with or without a
'+').  When N-value is not proved the returned form is evaluated on witness digit strings; a differing witness is a
VIOLATION with the text, otherwise the clause is an "undecided" note.

Not in pipeline.E1_SOURCES: own cache file.
"""
from __future__ import annotations

import json
import sys

from .facts import AnalysisIncomplete, Facts
from .floatform import Undecided, digits_value, eval_form
from .lin import Form
from .values import VAdt, VArray, VBool, VInt, VSlice, VTuple

KEY = 'format::parse_number'


def run(facts_path):
    try:
        return _run(facts_path)
    except AnalysisIncomplete:
        raise
    except Exception as e:
        return {'records': [], 'notes': [f"{KEY}: the stage could not drive the function ({type(e).__name__}: {str(e)[:160]}); undecided"], 'exits': 0}


def _run(facts_path):
    from .interp import Interp, State
    from .models import Models
    from .spec import Spec
    f = Facts(facts_path)
    I = Interp(f, Spec(f), Models(f))
    out = {'records': [], 'notes': [], 'exits': 0}
    if KEY not in f.bodies:
        out['notes'].append(f"{KEY}: no such function; the denotation of numeric text is undecided")
        for clause, ok, why in year_sign(I, State, f, out):
            out['records'].append({'prop': 'C05', 'clause': clause, 'ok': ok, 'detail': why if not ok else ''})
        return out
    recs = []
    for sign in ('', '+', '-'):
        for ml in range(1, 10):
            st = State()
            pre = [VInt(Form.const(ord(sign)), 'u8')] if sign else []
            ds = [I.fresh_int(st, 'u8', f'd{i}', 48, 57) for i in range(ml)]
            nxt = I.fresh_int(st, 'u8', 'next', 0, 255)
            arr = VArray(pre + ds + [nxt], 'u8')
            sl = VSlice(('carr', id(arr)), Form.const(0), Form.const(len(arr.elems)), ('vals', arr), 'u8')
            try:
                res = I.call_local(st, KEY, [sl, VInt(Form.const(ml), 'usize')])
            except AnalysisIncomplete as e:
                out['notes'].append(f"{KEY} [{sign!r}, max_len {ml}]: not analysable ({str(e)[:120]}); undecided")
                continue
            full = False
            syms = [d.form.terms[0][0] for d in ds]
            for s2, v in res:
                if not isinstance(v, VAdt) or v.single() is None:
                    out['notes'].append(f"{KEY} [{sign!r}, max_len {ml}]: result {v!r}; undecided")
                    continue
                if v.single() != 0:
                    continue
                t = v.variants[0][0]
                if not isinstance(t, VTuple) or len(t.elems) != 3 or not isinstance(t.elems[2], VSlice) or not isinstance(t.elems[1], VInt):
                    out['notes'].append(f"{KEY}: Ok payload {t!r}; undecided")
                    continue
                neg, val, rest = t.elems
                lo, hi = s2.num.rng(rest.off)
                if lo != hi or rest.base != sl.base:
                    out['notes'].append(f"{KEY}: rest offset in [{lo}, {hi}]; undecided")
                    continue
                k = lo - len(pre)
                out['exits'] += 1
                tag = f"{'no sign' if not sign else repr(sign)}"
                recs.append((f"parse_number N-count: between 1 and max_len digits are consumed ({tag})", 1 <= k <= ml,
                             f"max_len {ml}: Ok with {k} digit(s) consumed"))
                if not (1 <= k <= ml):
                    continue
                if k == ml:
                    full = True
                X = digits_value(ds, k)
                want = X.neg() if sign == '-' else X
                if s2.num.eq0(val.form.sub(want)):
                    recs.append((f"parse_number N-value: {k} digit(s) denote their decimal value ({tag})", True, ''))
                else:
                    verdict, why = None, f"returned form {val.form!r}, statement {want!r}"
                    try:
                        for w in witness_strings(k):
                            env = {syms[i]: ord(ch) for i, ch in enumerate(w)}
                            for j in range(len(w), len(syms)):
                                env[syms[j]] = 48
                            env[nxt.form.terms[0][0]] = 32
                            got = eval_form(val.form, dict(env))
                            exp = -int(w) if sign == '-' else int(w)
                            if got != exp:
                                verdict, why = False, f"text {sign + w!r}: the returned expression {val.form!r} evaluates to {got}, the text denotes {exp}"
                                break
                    except Undecided as e:
                        why += f"; witness evaluation: {e}"
                    recs.append((f"parse_number N-value: {k} digit(s) denote their decimal value ({tag})", verdict, why))
                if isinstance(neg, VBool) and neg.val is not None:
                    recs.append((f"parse_number N-sign: the negative flag is set exactly for a '-' prefix ({tag})", neg.val == (sign == '-'),
                                 f"flag {neg.val}"))
                else:
                    out['notes'].append(f"{KEY}: negative flag {neg!r} not decided on an exit ({tag})")
            recs.append((f"parse_number N-accept: digit text of the full field width is accepted ({'no sign' if not sign else repr(sign)})", full,
                         f"max_len {ml}: no Ok exit consumes {ml} digits"))
    recs += year_sign(I, State, f, out)
    seen = set()
    for clause, ok, why in recs:
        k = (clause, ok, why if ok is False else '')
        if k in seen:
            continue
        seen.add(k)
        out['records'].append({'prop': 'C05', 'clause': clause, 'ok': ok, 'detail': why if not ok else ''})
    return out


def _pred_syms(p, acc):
    if isinstance(p, Form):
        acc.update(s for s, _ in p.terms)
    elif isinstance(p, tuple):
        for x in p:
            _pred_syms(x, acc)
    return acc


def _base_syms(syms):
    from .lin import SYMTAB
    out, todo = set(), list(syms)
    while todo:
        x = todo.pop()
        info = SYMTAB.syms[x]
        if info.kind == 'div' and info.data:
            todo.extend(s for s, _ in info.data[0].terms)
        else:
            out.add(x)
    return out


def year_sign(I, State, f, out):
    """`parse_year` (year completion) hands the caller the sign of the TEXT: Y-sign - on every Ok exit the flag is the constant
    (prefix is '-').  A flag that is a wrong constant, or a predicate over clock-derived values, is refuted; any other undecided
    flag is a note."""
    from .lin import SYMTAB
    recs = []
    keys = sorted(k for k in f.bodies if k.startswith('format::parse_year'))
    if not keys:
        out['notes'].append('format::parse_year: no such function; the sign flag of a completed year is undecided')
        return recs
    for key in keys:
        body = f.body(key)
        try:
            for sign in ('', '+', '-'):
                for ml in (1, 2, 3, 4):
                    st = State()
                    pre = [VInt(Form.const(ord(sign)), 'u8')] if sign else []
                    ds = [I.fresh_int(st, 'u8', f'd{i}', 48, 57) for i in range(ml)]
                    nxt = I.fresh_int(st, 'u8', 'next', 0, 255)
                    arr = VArray(pre + ds + [nxt], 'u8')
                    sl = VSlice(('carr', id(arr)), Form.const(0), Form.const(len(arr.elems)), ('vals', arr), 'u8')
                    clo = I.top(st, body['locals'][3]['ty'], 'now')
                    res = I.call_local(st, key, [sl, VInt(Form.const(ml), 'usize'), clo])
                    tag = f"{'no sign' if not sign else repr(sign)}"
                    clause = f"parse_year Y-sign: the negative flag is the sign of the text ({tag})"
                    for s2, v in res:
                        if not isinstance(v, VAdt) or v.single() != 0:
                            continue
                        t = v.variants[0][0]
                        if not isinstance(t, VTuple) or len(t.elems) != 3:
                            continue
                        neg = t.elems[0]
                        out['exits'] += 1
                        if isinstance(neg, VBool) and neg.val is not None:
                            recs.append((clause, neg.val == (sign == '-'), f"year code of {ml} letter(s): flag {neg.val}"))
                            continue
                        p = I.bool_pred(neg) if isinstance(neg, VBool) else None
                        syms = _base_syms(_pred_syms(p, set())) if p is not None else set()
                        text = {d.form.terms[0][0] for d in ds} | {nxt.form.terms[0][0]}
                        foreign = sorted(SYMTAB.syms[x].name for x in syms - text)
                        if foreign:
                            recs.append((clause, False, f"year code of {ml} letter(s): the flag is not a function of the text - it is decided by {p!r}, which depends on {foreign[:3]}"))
                        else:
                            out['notes'].append(f"{key}: sign flag {neg!r} not decided on an exit ({tag}, {ml})")
        except AnalysisIncomplete as e:
            out['notes'].append(f"{key}: not analysable ({str(e)[:140]}); the sign flag of a completed year is undecided")
        except Exception as e:
            out['notes'].append(f"{key}: the stage could not drive the function ({type(e).__name__}: {str(e)[:140]}); undecided")
    return recs


def witness_strings(k):
    s = '1234567890'
    c = {s[:k], s[-k:], '9' * k, '1' + '0' * (k - 1), '0' * k, '5' * k, ('10' * k)[:k], ('09' * k)[:k]}
    return sorted(c)


def main():
    out = run(sys.argv[1])
    with open(sys.argv[2], 'w') as fh:
        json.dump(out, fh, indent=1, default=str)
    r = out['records']
    print(f"numparse: exits {out['exits']} records {len(r)} proved {sum(1 for x in r if x['ok'])} refuted {sum(1 for x in r if x['ok'] is False)} "
          f"undecided {sum(1 for x in r if x['ok'] is None)} notes {len(out['notes'])}")


if __name__ == '__main__':
    main()
