#!/usr/bin/env python3
"""Pretty-printer for the MIR facts dumped by mirdump (debugging aid)."""
import json
import sys


def pl(p):
    s = f"_{p['l']}"
    for e in p['p']:
        k = e['k']
        if k == 'deref':
            s = f"(*{s})"
        elif k == 'field':
            s = f"{s}.{e['i']}"
        elif k == 'index':
            s = f"{s}[_{e['l']}]"
        elif k == 'cindex':
            s = f"{s}[{'-' if e['from_end'] else ''}{e['off']} of {e['min']}]"
        elif k == 'subslice':
            s = f"{s}[{e['from']}..{'-' if e['from_end'] else ''}{e['to']}]"
        elif k == 'downcast':
            s = f"({s} as {e['name']})"
        else:
            s = f"{s}.<{k}>"
    return s


def cv(v):
    c = v.get('c')
    if c in ('int', 'bool'):
        return str(v['v'])
    if c == 'float':
        return v['repr']
    if c == 'str':
        return json.dumps(v['v'])
    if c == 'fn':
        return f"fn {v['key']}"
    if c in ('array', 'slice', 'tuple'):
        inner = v['v']
        if len(inner) > 8:
            return f"{c}[{len(inner)}: " + ', '.join(cv(x) if isinstance(x, dict) else str(x) for x in inner[:8]) + ', ...]'
        return f"{c}[" + ', '.join(cv(x) if isinstance(x, dict) else str(x) for x in inner) + ']'
    if c == 'ref':
        return '&' + cv(v['v'])
    if c == 'adt':
        return f"{v['def']}::{v['variant']}(" + ', '.join(cv(x) for x in v['fields']) + ')'
    if c == 'static':
        return f"static {v['def']}"
    if c == 'closure':
        return f"closure {v['key']}"
    return f"<{c}>"


def op(o):
    k = o['o']
    if k in ('copy', 'move'):
        return ('move ' if k == 'move' else '') + pl(o['p'])
    if k == 'const':
        if 'ref' in o:
            return f"const {o['ref']}"
        return f"const {cv(o['val'])}: {o['ty']}"
    return f"<{k}>"


def rv(r):
    k = r['r']
    if k == 'use':
        return op(r['a'])
    if k == 'bin':
        return f"{r['op']}({op(r['a'])}, {op(r['b'])})"
    if k == 'un':
        return f"{r['op']}({op(r['a'])})"
    if k == 'cast':
        return f"{op(r['a'])} as {r['to']} ({r['kind']})"
    if k == 'ref':
        return ('&mut ' if r['mut'] else '&') + pl(r['p'])
    if k == 'rawptr':
        return '&raw ' + pl(r['p'])
    if k == 'discr':
        return f"discriminant({pl(r['p'])})"
    if k == 'agg':
        kind = r['kind']
        if kind == 'adt':
            kind = f"{r['def']}::{r['vname']}"
        elif kind == 'closure':
            kind = f"closure {r['key']}"
        return f"{kind}(" + ', '.join(op(x) for x in r['ops']) + ')'
    if k == 'repeat':
        return f"[{op(r['a'])}; {r['n']}]"
    return f"<{k}>"


def show(b, out=sys.stdout):
    w = out.write
    w(f"fn {b['key']}  @ {b['span']}\n")
    for i, l in enumerate(b['locals']):
        tag = 'ret' if i == 0 else ('arg' if i <= b['argc'] else 'let')
        w(f"    {tag} _{i}: {l['ty']}" + (f"  // {l['name']}" if l['name'] else '') + "\n")
    for i, bb in enumerate(b['blocks']):
        w(f"  bb{i}{' (cleanup)' if bb['cleanup'] else ''}:\n")
        for s in bb['stmts']:
            if s['s'] == 'assign':
                w(f"    {pl(s['p'])} = {rv(s['rv'])}\n")
            elif s['s'] == 'setdiscr':
                w(f"    discriminant({pl(s['p'])}) = {s['v']}\n")
            else:
                w(f"    {s['s']}\n")
        t = bb['term']
        k = t['t']
        if k == 'goto':
            w(f"    goto bb{t['target']}\n")
        elif k == 'switch':
            w(f"    switchInt({op(t['a'])}) [" + ', '.join(f"{c[0]}: bb{c[1]}" for c in t['cases']) + f", otherwise: bb{t['otherwise']}]\n")
        elif k == 'call':
            c = t['callee']
            name = c.get('key') or c.get('kind')
            w(f"    {pl(t['dest'])} = {'' if c.get('local') else 'EXT '}{name}(" + ', '.join(op(a) for a in t['args']) + f") -> bb{t['target']}\n")
        elif k == 'assert':
            w(f"    assert({'!' if not t['expected'] else ''}{op(t['cond'])}, {t['kind']}(" + ', '.join(op(a) for a in t['ops']) + f")) -> bb{t['target']}\n")
        elif k == 'drop':
            w(f"    drop({pl(t['p'])}) -> bb{t['target']}\n")
        else:
            w(f"    {k}\n")


if __name__ == '__main__':
    d = json.load(open(sys.argv[1]))
    pat = sys.argv[2]
    for b in d['bodies']:
        if pat in b['key']:
            show(b)
            for p in b.get('promoted', []):
                show(p)
