"""Stage E1m: the reader consumes the whole name the writer emits (C06; the reader side is C05).

For a name token the writer emits the English weekday / month name in the style of the token (full or three-letter;
capitalised, upper or lower case).  The reader (`format::parse_week_day_name(text, style)`, `format::parse_month_name(text)`)
must accept that text and consume all of it - otherwise the round trip fails on the leftover (C06-m8 of round 5: the
upper-case full style `DAY` was looked up in the abbreviation table, so `FRIDAY` matched `FRI` and `DAY` was left over).
The stage runs the reader on the concrete bytes of each of the 7 / 12 names in each of the 6 styles, followed by one
arbitrary byte, and demands an `Ok` exit whose remaining slice starts right after the name.  E1's string comparisons are
path-insensitive, so WHICH name matched is not decided here (the table rules of C04 / C19 pin the tables); but an exit
that consumes k bytes exists in the abstract run whenever a concrete run consumes k bytes, so "no exit consumes the whole
name" is a sound refutation.  Unreadable shapes are notes.

Not in pipeline.E1_SOURCES: own cache file.
"""
from __future__ import annotations

import json
import sys

from .facts import AnalysisIncomplete, Facts
from .lin import Form
from .values import VAdt, VArray, VInt, VSlice, VTuple

DAYS = ['Sunday', 'Monday', 'Tuesday', 'Wednesday', 'Thursday', 'Friday', 'Saturday']
MONTHS = ['January', 'February', 'March', 'April', 'May', 'June', 'July', 'August', 'September', 'October', 'November', 'December']
STYLES = ['Capital', 'Lower', 'Upper', 'AbbrCapital', 'AbbrLower', 'AbbrUpper']


def styled(name, style):
    t = name[:3] if style.startswith('Abbr') else name
    return t.upper() if style.endswith('Upper') else t.lower() if style.endswith('Lower') else t


def run(facts_path):
    try:
        return _run(facts_path)
    except AnalysisIncomplete:
        raise
    except Exception as e:
        return {'records': [], 'notes': [f"name readers: the stage could not drive them ({type(e).__name__}: {str(e)[:160]}); undecided"], 'runs': 0}


def consumed(I, State, key, text, extra):
    st = State()
    nxt = I.fresh_int(st, 'u8', 'next', 0, 255)
    arr = VArray([VInt(Form.const(b), 'u8') for b in text.encode()] + [nxt], 'u8')
    sl = VSlice(('carr', id(arr)), Form.const(0), Form.const(len(arr.elems)), ('vals', arr), 'u8')
    res = I.call_local(st, key, [sl] + extra)
    ks = set()
    for s2, r in res:
        if isinstance(r, VAdt) and r.single() == 0:
            t = r.variants[0][0]
            if isinstance(t, VTuple) and len(t.elems) == 2 and isinstance(t.elems[1], VSlice) and t.elems[1].base == sl.base:
                lo, hi = s2.num.rng(t.elems[1].off)
                ks.update(range(lo, min(hi, len(text) + 1) + 1))
            else:
                return None
    return ks


def _run(facts_path):
    from .interp import Interp, State
    from .models import Models
    from .spec import Spec
    f = Facts(facts_path)
    I = Interp(f, Spec(f), Models(f))
    out = {'records': [], 'notes': [], 'runs': 0}
    wk, mk = 'format::parse_week_day_name', 'format::parse_month_name'
    if wk in f.bodies:
        sty = f.body(wk)['locals'][2]['ty']
        idx = {v['name']: v['idx'] for v in f.types.get(sty, {}).get('variants', [])}
        for style in STYLES:
            if style not in idx:
                out['notes'].append(f"{wk}: style type has no variant {style}; undecided")
                continue
            bad = []
            for d in DAYS:
                text = styled(d, style)
                out['runs'] += 1
                ks = consumed(I, State, wk, text, [VAdt(sty, {idx[style]: ()})])
                if ks is None:
                    out['notes'].append(f"{wk}: result shape not read ({style}); undecided")
                    bad = None
                    break
                if len(text) not in ks:
                    bad.append(f"{text!r}: accepting paths consume {sorted(ks) or 'nothing'} byte(s)")
            if bad is not None:
                out['records'].append({'prop': 'C06', 'clause': f"parse_week_day_name [{style}]: the writer's weekday name is accepted and consumed whole",
                                       'ok': not bad, 'detail': '; '.join(bad[:3])})
    else:
        out['notes'].append(f"{wk}: no such function; undecided")
    if mk in f.bodies:
        for style in STYLES:
            bad = []
            for m in MONTHS:
                text = styled(m, style)
                out['runs'] += 1
                ks = consumed(I, State, mk, text, [])
                if ks is None:
                    out['notes'].append(f"{mk}: result shape not read; undecided")
                    bad = None
                    break
                if len(text) not in ks:
                    bad.append(f"{text!r}: accepting paths consume {sorted(ks) or 'nothing'} byte(s)")
            if bad is not None:
                out['records'].append({'prop': 'C06', 'clause': f"parse_month_name: the writer's month name in style {style} is accepted and consumed whole",
                                       'ok': not bad, 'detail': '; '.join(bad[:3])})
    else:
        out['notes'].append(f"{mk}: no such function; undecided")
    return out


def main():
    out = run(sys.argv[1])
    with open(sys.argv[2], 'w') as fh:
        json.dump(out, fh, indent=1, default=str)
    r = out['records']
    print(f"names: runs {out['runs']} records {len(r)} refuted {sum(1 for x in r if not x['ok'])} notes {len(out['notes'])}")
    for x in r:
        if not x['ok']:
            print('  REFUTED', x['clause'], '--', x['detail'][:200])
    for t in out['notes'][:4]:
        print('  note', t)


if __name__ == '__main__':
    main()
