"""Property-level decision: turns E0 facts and E1 results into per-property verdicts and evidence."""
from __future__ import annotations

import hashlib
import json
import os
import re
import sys

from . import graph, pipeline, tables
from .facts import AnalysisIncomplete, Facts

VERIF = pipeline.VERIF
LEVELS = {
    'C01': 'other', 'C02': 'proof', 'C03': 'proof', 'C04': 'other', 'C05': 'other', 'C06': 'other', 'C07': 'proof',
    'C08': 'proof', 'C09': 'proof', 'C10': 'proof', 'C11': 'other', 'C12': 'proof', 'C13': 'proof', 'C14': 'other',
    'C15': 'other', 'C16': 'proof', 'C17': 'other', 'C18': 'other', 'C19': 'other',
}

TRUSTED_E1 = [
    "rustc's type checking, MIR construction and constant evaluation (facts are read from the compiler, nothing of the crate is executed)",
    "external callee models of DESIGN.md Appendix B (core/alloc/std, chrono, stack_buf, once_cell, serde): result shape and panic preconditions",
    "calendar kernel summaries K1/K2/K1b used at call sites (date2julian/julian2date are the proleptic Gregorian day number and its inverse on 0001-01-01..9999-12-31; a date lies 0..365 days after 1 January of its own year) are consequences of the residue-class rules K-lin/K-step/K-anchor/K-inv checked under C01 (DESIGN 11.9); K3 (ISO year of an in-range date is in 1..=9999) is stated",
    "soundness of the abstract interpreter /verif/sda (interval x congruence over linear forms, Div/Rem axioms, bound propagation, trace partitioning)",
]


def load_lines(path, prefix):
    out = []
    if os.path.exists(path):
        for ln in open(path):
            ln = ln.strip()
            if ln.startswith(prefix):
                out.append(ln[len(prefix):].strip())
    return out


def parse_kv(line):
    """'property=C03 key=<...> :: text' -> (prop, key, text)"""
    m = re.match(r'property=(\S+)\s+key=(.*?)\s+::\s*(.*)$', line)
    if not m:
        return None
    return m.group(1), m.group(2), m.group(3)


class Report:
    def __init__(self, pid, tier):
        self.pid = pid
        self.tier = tier
        self.level = LEVELS[pid]
        self.obligations = 0
        self.discharged = 0
        self.by_axiom = []
        self.violations = []      # (key, text, detail dict)
        self.known = []
        self.instances = {}       # rule name -> count
        self.samples = []
        self.assumptions = []
        self.trusted = []
        self.notes = []
        self.explanation = ''
        self.configs = []
        self.wall_s = 0.0
        self.seed = 0
        self.extra = {}
        kf = load_lines(os.path.join(VERIF, 'known_findings.txt'), 'finding:')
        self.known_keys = {}
        for ln in kf:
            p = parse_kv(ln)
            if p and p[0] == pid:
                self.known_keys[p[1]] = p[2]
        ax = load_lines(os.path.join(VERIF, 'spec', 'axioms.txt'), 'axiom:')
        self.axioms = {}
        for ln in ax:
            p = parse_kv(ln)
            if p and p[0] == pid:
                self.axioms[p[1]] = p[2]
        self.axioms_hit = set()
        self.known_hit = set()

    # an obligation / rule instance
    def ob(self, key, ok, text='', detail=None, rule=None):
        self.obligations += 1
        if rule:
            self.instances[rule] = self.instances.get(rule, 0) + 1
        if ok:
            self.discharged += 1
            if key in self.axioms:
                # the residual table may only contain obligations the analysis cannot discharge
                self.notes.append(f"stale axiom (now discharged by analysis): {key}")
                self.stale = True
            return True
        if key in self.axioms:
            self.axioms_hit.add(key)
            self.by_axiom.append(key)
            self.discharged += 1
            return True
        if key in self.known_keys:
            if key not in self.known_hit:
                self.known_hit.add(key)
                self.known.append((key, self.known_keys[key]))
            return False
        self.violations.append((key, text, detail or {}))
        return False

    def sample(self, s):
        if len(self.samples) < 12:
            self.samples.append(s)

    def finish(self):
        pid = self.pid
        base = os.environ.get('VERIF_OUT_BASE', VERIF)
        out_dir = os.path.join(base, 'out', pid)
        os.makedirs(out_dir, exist_ok=True)
        stale = [k for k in self.axioms if k not in self.axioms_hit]
        if stale:
            print(f"ANALYSIS-INCOMPLETE property={pid} stale residual-table entries (no matching undischarged obligation): {stale}")
            return 2
        seen = set()
        code = 0
        for key, text, detail in self.violations:
            if key in seen:
                continue
            seen.add(key)
            h = hashlib.sha256(key.encode()).hexdigest()[:12]
            path = os.path.join('out', pid, f"{h}.json")
            with open(os.path.join(base, path), 'w') as f:
                json.dump({'property': pid, 'key': key, 'text': text, 'detail': detail}, f, indent=1, default=str)
            print(f"VIOLATION property={pid} replay={path}")
            print(f"  {text}")
            code = 1
        for key, desc in self.known:
            print(f"KNOWN-FINDING: property={pid} {key} :: {desc}")
        cov = {
            'obligations': self.obligations,
            'discharged': self.discharged,
            'checker_cmd': f"./check {pid} --tier {self.tier}",
            'trusted_base': self.trusted or TRUSTED_E1,
            'explanation': self.explanation,
            'rule_instances': self.instances,
            'discharged_by_residual_table': self.by_axiom,
            'known_findings_reported': [k for k, _ in self.known],
            'samples': self.samples or ['(no sample)'],
            'configurations': self.configs,
            'exhaustive': False,
        }
        cov.update(self.extra)
        if self.level != 'proof':
            cov['evaluations'] = max(self.obligations, 1)
            cov['distinct_nontrivial'] = max(len(self.instances), 2)
            cov['rule'] = 'static rule instances over the compiler-extracted facts; one evaluation per instance; distinct = rule kinds'
        ev = {
            'property_id': pid,
            'tier': self.tier,
            'seed': self.seed,
            'level': self.level,
            'coverage': cov,
            'assumptions': self.assumptions,
            'wall_s': self.wall_s,
            'violations': len(seen),
        }
        os.makedirs(os.path.join(base, 'evidence'), exist_ok=True)
        with open(os.path.join(base, 'evidence', f"{pid}.json"), 'w') as f:
            json.dump(ev, f, indent=1, default=str)
        print(f"property={pid} tier={self.tier} level={self.level} obligations={self.obligations} discharged={self.discharged} "
              f"residual={len(self.by_axiom)} known={len(self.known)} violations={len(seen)} wall={self.wall_s}s")
        return code


# ----------------------------------------------------------------------------------------------------------------
class Ctx:
    """facts + E1 results of one configuration"""

    def __init__(self, cfg, need_e1=True, prop=None):
        self.cfg = cfg
        fp, ep = pipeline.ensure(cfg, need_e1)
        self.facts = Facts(fp)
        if self.facts.errors:
            raise AnalysisIncomplete(f"extractor reported: {self.facts.errors}")
        self.e1 = pipeline.load_json(ep) if ep else None
        self.skipped_roots = []
        if self.e1 is not None:
            inc = [r for r in self.e1['roots'] if r['incomplete']]
            if inc and prop not in (None, 'C02', 'C03'):
                # a root E1 could not analyse leaves undecided only the properties that have obligations or contracts
                # under that root (spec/root_props.json, counted on the reference tree; an unknown root counts for all)
                ref = root_props()
                rel = [r for r in inc if prop in ref.get(r['root'], [prop])]
                self.skipped_roots = sorted({r['root'] for r in inc} - {r['root'] for r in rel})
                inc = rel
            if inc:
                raise AnalysisIncomplete(f"[{cfg}] E1 could not analyse {len(inc)} root(s): " +
                                         '; '.join(f"{r['root']}: {r['incomplete'][:160]}" for r in inc[:3]))
            if self.e1['unmodelled']:
                self.unmodelled = self.e1['unmodelled']
            else:
                self.unmodelled = {}

    def floor(self, what, have, need):
        if have < need:
            raise AnalysisIncomplete(f"[{self.cfg}] floor not met for {what}: {have} < {need} (counted on the reference tree)")


def root_props():
    p = os.path.join(VERIF, 'spec', 'root_props.json')
    return json.load(open(p)) if os.path.exists(p) else {}


def floors():
    p = os.path.join(VERIF, 'spec', 'floors.json')
    return json.load(open(p)) if os.path.exists(p) else {}


def ob_key(o):
    return f"{o['kind']}|{o['fn']}|{o['desc']}"


def e1_obligations(rep: Report, ctx: Ctx, select, rule_prefix=''):
    n = 0
    for o in ctx.e1['obligations']:
        if not select(o):
            continue
        n += 1
        key = ob_key(o)
        ok = o['fails'] == 0
        text = ''
        if not ok:
            s = o['sample']
            text = (f"{o['kind']} {o['desc']} in {o['fn']} @ {o['span']}  <root {s['root']}> "
                    f"{(' via ' + ' > '.join(s['chain'][-4:])) if s.get('chain') else ''}: {s['detail'][:400]}")
        rep.ob(key, ok, text, {'obligation': o, 'config': ctx.cfg}, rule=rule_prefix + o['kind'])
        if ok and len(rep.samples) < 6 and o['visits'] > 3:
            rep.sample({'obligation': key, 'site': o['span'], 'visits': o['visits'], 'status': 'discharged'})
    return n


# Records and obligations of *other* properties that are necessary conditions of a property as well (DESIGN 11.12): a
# change is usually tried against the check of the property it was written for.
C06_FROM_C05 = ('the meridian text is matched in the spelling of the picture', 'day of year accepted exactly', '12-hour value with meridian', 'AM, PM and an absent meridian are all accepted',
                'a weekday field is checked against the date', 'the weekday field is checked against the date that is returned',
                'a 12-hour value outside 1..=12 is rejected', 'with a month field the day comes from the day of the year',
                'with a day field the month comes from the day of the year')
ALSO = {
    # what the writer emits must be read back: the reader-side rules about values the writer can produce
    'C06': lambda c, r: (c['prop'] == 'C05' and any(x in c['clause'] for x in C06_FROM_C05))
    or (c['prop'] == 'C01' and c['root'] == 'common::the_day_of_year'),      # DDD: the writer's day of the year is what the reader inverts
    # chronological order across types: the mixed comparisons
    'C07': lambda c, r: c['prop'] == 'C17' and ('compar' in c['clause'] or 'cmp' in c['clause'].lower()),
    # the three date-like types satisfy the same characterisation of truncation / rounding / last day / month arithmetic
    # ... and the same exact-arithmetic characterisation of interval arithmetic and differences (C08 / C16 contracts of the add_* / sub_* operations)
    'C17': lambda c, r: c['prop'] == 'C09' or (c['prop'] in ('C10', 'C11') and ('timestamp::Timestamp' in r['root'] or 'oracle::Date' in r['root']))
    or (c['prop'] in ('C08', 'C16') and re.match(r'^(date::Date|timestamp::Timestamp|oracle::Date)::(add|sub)_', r['root']) is not None),
    # a run of blanks is rendered with its length: the lexer's blank rules
    'C04': lambda c, r: (c['prop'] == 'C19' and any(x in c['clause'] for x in ('lank', 'style', 'MonthName', 'DayName', 'AmPm')))
    or (c['prop'] == 'C01' and c['root'] == 'common::the_day_of_year'),
    # the text channel of the decoder ends in the parser's assembly step
    'C15': lambda c, r: c['prop'] == 'C05' and 'TryFrom<format::NaiveDateTime>' in r['root'],
    # adding months relies on the month lengths (leap rule, month-length table)
    # ... and on both day-number conversions (the date is split with julian2date and rebuilt with date2julian): K-lin / K-step / K-anchor / K-inv
    'C09': lambda c, r: c['prop'] == 'C01' and (r['root'] in ('common::is_leap_year', 'common::days_of_month') or re.search(r'\bK-(step|inv|lin|anchor)', c['clause']) is not None),
    # calendar units split the day number into (y, m, d) and rebuild the boundary: the same kernel rules
    'C10': lambda c, r: c['prop'] == 'C01' and re.search(r'\bK-(step|inv|lin|anchor)', c['clause']) is not None,
    'C11': lambda c, r: c['prop'] == 'C01' and re.search(r'\bK-(step|inv|lin|anchor)', c['clause']) is not None,
    # the parser's final assembly validates the date with the calendar acceptance rule
    'C05': lambda c, r: c['prop'] == 'C01' and r['root'] in ('date::Date::validate_ymd', 'date::Date::try_from_ymd'),
}
# roots whose panic / range / exact-cast obligations count for a property besides the roots that carry its contracts
ROOT_PATTERNS = {
    'C04': r'::format|Display|LazyFormat|Serialize',
    'C05': r'::parse|FromStr|visit_str|TryFrom<format::NaiveDateTime>',
    'C06': r'::format|::parse|Display|LazyFormat',
    'C15': r'serialize|Serialize|Deserialize|visit_|TryFrom<format::NaiveDateTime>',
    'C08': r'::(add|sub)_(days|date|time|timestamp|interval_dt|interval_ym)\b',
    'C18': r'::now\b|TryFrom<time::Time>',
    'C19': r'try_new|FormatParser',
}


def related_obligations(rep: Report, ctx: Ctx, prop):
    """a panic edge, an out-of-range result or an inexact cast under a root that carries contracts of the property (or matches
    its root pattern) means the property's function does not return the specified result for some input"""
    if prop in ('C02', 'C03'):
        return 0
    roots = {r['root'] for r in ctx.e1['roots'] if any(c['prop'] == prop or (prop in ALSO and ALSO[prop](c, r)) for c in r['contracts'])}
    pat = ROOT_PATTERNS.get(prop)
    if pat:
        rx = re.compile(pat)
        roots |= {r['root'] for r in ctx.e1['roots'] if rx.search(r['root'])}
    def sel(o):
        if o['kind'] not in ('P-assert', 'P-call', 'P-pre', 'R-inv', 'C-cast'):
            return False
        if o['fails']:
            # a site shared by many roots fails for this property only if it fails under one of *its* roots
            return not roots.isdisjoint(o.get('fail_roots') or o['roots'])
        return not roots.isdisjoint(o['roots'])
    return e1_obligations(rep, ctx, sel)


def contract_records(rep: Report, ctx: Ctx, prop):
    """returns the number of distinct (root, variant) pairs that produced records for the property (the floor is on
    that number: it does not depend on how many paths an implementation happens to have)"""
    n = 0
    roots = set()
    also = ALSO.get(prop)
    for r in ctx.e1['roots']:
        for c in r['contracts']:
            if c['prop'] != prop and not (c['prop'] == 'C00') and not (also is not None and also(c, r)):
                continue
            if c['prop'] == 'C00':
                # a contract that could not be evaluated: report under every property (fail closed)
                pass
            n += 1
            if c['prop'] == prop:
                roots.add((r['root'], r.get('variant')))
            key = f"R-ens|{c['root']}|{c['clause']}"
            rep.ob(key, c['ok'], f"R-ens {c['root']}: {c['clause']} -- {c['detail'][:400]}", {'contract': c, 'config': ctx.cfg}, rule='R-ens')
            if c['ok'] and len(rep.samples) < 10:
                rep.sample({'contract': key, 'status': 'holds on every exit state'})
    rep.extra.setdefault('contract_roots', {})[ctx.cfg] = len(roots)
    for r in ctx.e1['roots']:
        if r['root'] == 'kernel:classes' and prop in ('C01', 'C10', 'C11'):
            rep.extra.setdefault('residue_classes_analysed', {})[ctx.cfg] = (r.get('extra') or {}).get('classes')
    return len(roots)


def tier_cfgs(tier):
    return pipeline.THOROUGH if tier == 'thorough' else pipeline.QUICK


def std_assumptions(rep, ctx):
    rep.assumptions = [
        'arguments of the six types satisfy their type invariant; primitive arguments are arbitrary',
        'allocation failure aborts (not a panic); a user supplied fmt::Write does not panic',
        'unmodelled external callees are total (listed): ' + (', '.join(sorted(ctx.unmodelled)) or 'none'),
        'StackStr<32> capacity is decided by the C15 layout-width rule, not by E1',
    ]
    if ctx.skipped_roots:
        rep.assumptions.append('roots E1 could not analyse, without obligations or contracts of this property (undecided for C02/C03 only): '
                               + ', '.join(ctx.skipped_roots))


# ----------------------------------------------------------------------------------------------------------------
def prop_C03(rep: Report, tier):
    fl = floors().get('C03', {})
    for cfg in tier_cfgs(tier):
        ctx = Ctx(cfg)
        rep.configs.append(cfg)
        n = e1_obligations(rep, ctx, lambda o: o['kind'] in ('P-assert', 'P-call', 'P-pre') or (o['kind'] == 'R-inv' and 'Field' in o['desc']))
        if cfg == 'full':
            ctx.floor('C03 panic obligations', n, fl.get('obligations', 1))
            ctx.floor('roots analysed', len(ctx.e1['roots']), fl.get('roots', 1))
        std_assumptions(rep, ctx)
        rep.extra.setdefault('roots_analysed', {})[cfg] = len(ctx.e1['roots'])
        rep.extra.setdefault('axioms_used', {})[cfg] = ctx.e1['axioms_used']
    rep.explanation = ('every MIR panic edge (overflow / division / bounds asserts) and every call to an external with a panic '
                       'precondition, in every monomorphic instance reachable from the safe public roots, is infeasible under the abstract state')


def prop_C02(rep: Report, tier):
    fl = floors().get('C02', {})
    for cfg in tier_cfgs(tier):
        ctx = Ctx(cfg)
        rep.configs.append(cfg)
        n = e1_obligations(rep, ctx, lambda o: o['kind'] == 'R-inv' and o['desc'].startswith('construct '))
        if cfg == 'full':
            ctx.floor('C02 construction sites', n, fl.get('obligations', 1))
        std_assumptions(rep, ctx)
        tables.range_constants(rep, ctx.facts)
        privacy_facts(rep, ctx)
    if tier == 'thorough':
        run_witnesses(rep)
    rep.explanation = ('every construction of a value of the six range-carrying types (tuple-struct aggregate, including inside the '
                       'unsafe *_unchecked constructors, analysed in the context of each caller) has a count proved inside the documented range')


def privacy_facts(rep, ctx):
    """premise of R-inv: outside the crate values arise only through the crate's constructors"""
    from .spec import INV
    n = 0
    for name, t in ctx.facts.types.items():
        if t.get('k') == 'adt' and t.get('def') in INV and name == t.get('def'):
            for f in t['variants'][0]['fields']:
                n += 1
                rep.ob(f"E0|private-field|{t['def']}", not f['pub'], f"the representation field of {t['def']} is public: values can be forged", rule='E0-privacy')
    for d, it in ctx.facts.items.items():
        if d.endswith('_unchecked'):
            n += 1
            rep.ob(f"E0|unsafe-unchecked|{d}", it['unsafe'], f"{d} builds a value without validation but is not an unsafe fn", rule='E0-privacy')
    if n < 10:
        raise AnalysisIncomplete(f"privacy rule matched only {n} items")


def run_witnesses(rep):
    """E4: compile_fail witnesses with compiling twins (thorough tier)"""
    import shutil
    import subprocess
    src = os.path.join(VERIF, 'witness')
    dst = os.path.join(pipeline.WORK, 'witness-run')
    shutil.rmtree(dst, ignore_errors=True)
    shutil.copytree(src, dst, ignore=shutil.ignore_patterns('target', 'Cargo.lock'))
    ct = open(os.path.join(dst, 'Cargo.toml')).read().replace('path = "/repo"', f'path = "{pipeline.REPO}"')
    open(os.path.join(dst, 'Cargo.toml'), 'w').write(ct)
    lock = os.path.join(pipeline.REPO, 'Cargo.lock')
    if os.path.exists(lock):
        shutil.copy(lock, os.path.join(dst, 'Cargo.lock'))
    env = dict(os.environ)
    env['CARGO_NET_OFFLINE'] = 'true'
    env['CARGO_TARGET_DIR'] = os.path.join(pipeline.WORK, 'witness-target')
    r = subprocess.run(['cargo', '+nightly', 'test', '--doc', '--offline'], cwd=dst, capture_output=True, text=True, env=env)
    out = r.stdout + r.stderr
    tests = re.findall(r'^test (.*?) \.\.\. (\w+)', out, re.M)
    if len(tests) < 20:
        raise AnalysisIncomplete('witness crate: fewer than 20 doctests ran: ' + out[-600:])
    for name, res in tests:
        rep.ob(f"E4|{name.split(' (line')[0]}|{'fail' if 'compile fail' in name else 'twin'}", res == 'ok',
               f"witness {name}: {res} (a forged value / unsafe call from outside the crate type-checks, or the twin is broken)", rule='E4-witness')
    rep.sample({'rule': 'E4 compile_fail witnesses with twins', 'doctests': len(tests)})


CALENDAR_PROPS = ('C10', 'C11')


def prop_contracts(pid, explanation):
    def run(rep: Report, tier):
        fl = floors().get(pid, {})
        cfgs = tier_cfgs(tier)
        if tier == 'thorough' and pid in CALENDAR_PROPS:
            cfgs = cfgs + ['full-calendar']
        for cfg in cfgs:
            ctx = Ctx(cfg, prop=pid)
            rep.configs.append(cfg)
            n = contract_records(rep, ctx, pid)
            if cfg == 'full':
                ctx.floor(f'{pid} contract records', n, fl.get('contracts', 1))
            related_obligations(rep, ctx, pid)
            extra = EXTRA_RULES.get(pid)
            if extra:
                extra(rep, ctx)
            std_assumptions(rep, ctx)
        rep.explanation = explanation + '; plus the panic-edge / invariant / exact-cast obligations under its roots and the necessary-condition records it shares with other properties (DESIGN 11.12)'
    return run


def extra_C10(rep, ctx):
    tables.c10_tables(rep, ctx.facts)


def week_glue(rep, ctx):
    """stage E1l (sda/weekglue.py): Timestamp / OracleDate week rounding hands the date-level rule the nearest calendar date"""
    if ctx.cfg in pipeline.ONLY:
        return
    d = pipeline.load_json(pipeline.ensure_stage('e1l', ctx.cfg))
    for r in d['records']:
        key = f"R-ens|{r['root']}|{r['clause']}"
        rep.ob(key, r['ok'], f"R-ens {r['root']}: {r['clause']} -- {r['detail'][:300]}", {'weekglue': r, 'config': ctx.cfg}, rule='E1l-week-glue')
    for t in d['notes']:
        rep.notes.append(f"[{ctx.cfg}] E1l (undecided, not a violation): {t}")
    rep.extra.setdefault('week_glue', {})[ctx.cfg] = {'roots': d['roots'], 'calls': d['calls']}


def extra_C11(rep, ctx):
    tables.c11_tables(rep, ctx.facts)
    week_glue(rep, ctx)


def prop_tables(pid, fn, explanation):
    def run(rep: Report, tier):
        for cfg in tier_cfgs(tier):
            ctx = Ctx(cfg, prop=pid)
            rep.configs.append(cfg)
            fn(rep, ctx)
            n = contract_records(rep, ctx, pid)
            if cfg == 'full':
                ctx.floor(f'{pid} contract records', n, floors().get(pid, {}).get('contracts', 0))
            related_obligations(rep, ctx, pid)
            extra = EXTRA_RULES.get(pid)
            if extra:
                extra(rep, ctx)
            std_assumptions(rep, ctx)
        rep.explanation = explanation + '; plus the panic-edge / invariant / exact-cast obligations under its roots and the necessary-condition records it shares with other properties (DESIGN 11.12)'
    return run


def extra_C15(rep, ctx):
    if 'serde' not in ctx.facts.features:
        rep.notes.append(f"[{ctx.cfg}] serde feature off: nothing to check")
        return
    graph.serde_layouts(rep, ctx.facts)
    graph.serde_capacity(rep, ctx.facts)
    # Serialize and visit_str of one type use the same static formatter, the one documented for the type
    info = {}
    for r in ctx.e1['roots']:
        for c in r['contracts']:
            if c.get('info') and c['prop'] == 'C15':
                info.setdefault(c['info']['type'], []).append((c['root'], c['info']['static']))
    for t, uses in sorted(info.items()):
        want = graph.STATIC_OF_TYPE.get(t)
        for root, st in uses:
            ok = len(st) == 1 and st[0].split('::')[-1] == want
            rep.ob(f"E2|serde-static|{root}", ok, f"{root} uses static formatter(s) {st}; the layout of {t} is {want}", rule='E2-static-agreement')
    need = 6 if 'oracle' in ctx.facts.features else 5
    if len(info) < need:
        raise AnalysisIncomplete(f"serde static-agreement rule saw {len(info)} types, expected {need}")


def float_forms(rep, ctx, props):
    """stage E1f (sda/floatform.py): fractional seconds scaled through f64 - parse_fraction rounds half-up (C05),
    NaiveDateTime::fraction truncates (C04); both are necessary conditions of the round trip (C06)"""
    if ctx.cfg in pipeline.ONLY:
        return
    d = pipeline.load_json(pipeline.ensure_stage('e1f', ctx.cfg))
    n = {'proved': 0, 'refuted': 0, 'undecided': 0}
    for r in d['records']:
        if r['prop'] not in props:
            continue
        fn = 'format::parse_fraction' if r['prop'] == 'C05' else 'format::NaiveDateTime::fraction'
        key = f"R-ens|{fn}|{r['clause']}"
        if r['ok'] is None:
            n['undecided'] += 1
            rep.notes.append(f"[{ctx.cfg}] E1f undecided (not a violation): {fn}: {r['clause']} -- {r['detail'][:300]}")
            continue
        n['proved' if r['ok'] else 'refuted'] += 1
        rep.ob(key, r['ok'], f"R-ens {fn}: {r['clause']} -- {r['detail'][:500]}", {'floatform': r, 'config': ctx.cfg}, rule='E1f-float-form')
        if r['ok'] and len(rep.samples) < 12:
            rep.sample({'contract': key, 'status': r['detail'][:200]})
    for t in d['notes']:
        rep.notes.append(f"[{ctx.cfg}] E1f: {t}")
    rep.extra.setdefault('float_forms', {})[ctx.cfg] = dict(n, exits=d['exits'])


def extra_C06(rep, ctx):
    tables.c06_widths(rep, ctx.facts)
    float_forms(rep, ctx, ('C04', 'C05'))
    digit_rendering(rep, ctx)
    meridian_map(rep, ctx)
    number_text(rep, ctx)
    name_readers(rep, ctx)


def meridian_map(rep, ctx):
    """stage E1i (sda/hour12.py): the exact 12-hour -> 24-hour map of NaiveDateTime::adjust_hour12"""
    if ctx.cfg in pipeline.ONLY:
        return
    d = pipeline.load_json(pipeline.ensure_stage('e1i', ctx.cfg))
    for r in d['records']:
        key = f"R-ens|format::NaiveDateTime::adjust_hour12|{r['clause']}"
        rep.ob(key, r['ok'], f"R-ens format::NaiveDateTime::adjust_hour12: {r['clause']} -- {r['detail'][:300]}", {'hour12': r, 'config': ctx.cfg}, rule='E1i-meridian-map')
    for t in d['notes']:
        rep.notes.append(f"[{ctx.cfg}] E1i (undecided, not a violation): {t}")
    rep.extra.setdefault('meridian_map', {})[ctx.cfg] = {'cases': d['cases'], 'records': len(d['records'])}


def name_readers(rep, ctx):
    """stage E1m (sda/names.py): the reader consumes the whole name the writer emits, per style"""
    if ctx.cfg in pipeline.ONLY:
        return
    d = pipeline.load_json(pipeline.ensure_stage('e1m', ctx.cfg))
    for r in d['records']:
        fn = 'format::parse_week_day_name' if 'week_day' in r['clause'] else 'format::parse_month_name'
        key = f"R-ens|{fn}|{r['clause']}"
        rep.ob(key, r['ok'], f"R-ens {fn}: {r['clause']} -- {r['detail'][:300]}", {'names': r, 'config': ctx.cfg}, rule='E1m-name-readers')
    for t in d['notes']:
        rep.notes.append(f"[{ctx.cfg}] E1m (undecided, not a violation): {t}")
    rep.extra.setdefault('name_readers', {})[ctx.cfg] = {'runs': d['runs'], 'records': len(d['records'])}


def number_text(rep, ctx, only=None):
    """stage E1j (sda/numparse.py): parse_number returns the number its digits denote, with the sign of the prefix; parse_year
    hands on the sign of the text"""
    if ctx.cfg in pipeline.ONLY:
        return
    d = pipeline.load_json(pipeline.ensure_stage('e1j', ctx.cfg))
    n = {'proved': 0, 'refuted': 0, 'undecided': 0}
    for r in d['records']:
        if only is not None and only not in r['clause']:
            continue
        key = f"R-ens|{'format::parse_year' if 'parse_year' in r['clause'] else 'format::parse_number'}|{r['clause']}"
        if r['ok'] is None:
            n['undecided'] += 1
            rep.notes.append(f"[{ctx.cfg}] E1j undecided (not a violation): {r['clause']} -- {r['detail'][:300]}")
            continue
        n['proved' if r['ok'] else 'refuted'] += 1
        rep.ob(key, r['ok'], f"R-ens format::parse_number: {r['clause']} -- {r['detail'][:400]}", {'numparse': r, 'config': ctx.cfg}, rule='E1j-number-text')
    for t in d['notes']:
        rep.notes.append(f"[{ctx.cfg}] E1j (undecided, not a violation): {t}")
    rep.extra.setdefault('number_text', {})[ctx.cfg] = dict(n, exits=d['exits'])


def extra_C05(rep, ctx):
    float_forms(rep, ctx, ('C05',))
    meridian_map(rep, ctx)
    number_text(rep, ctx)
    name_readers(rep, ctx)


def digit_rendering(rep, ctx):
    """stage E1h (sda/digits.py): write_u32 writes the zero-padded decimal expansion (per digit count and width)"""
    if ctx.cfg in pipeline.ONLY:
        return
    d = pipeline.load_json(pipeline.ensure_stage('e1h', ctx.cfg))
    n = {'proved': 0, 'refuted': 0, 'undecided': 0}
    for r in d['records']:
        key = f"R-ens|format::write_u32|{r['clause']}"
        if r['ok'] is None:
            n['undecided'] += 1
            rep.notes.append(f"[{ctx.cfg}] E1h undecided (not a violation): {r['clause']} -- {r['detail'][:300]}")
            continue
        n['proved' if r['ok'] else 'refuted'] += 1
        rep.ob(key, r['ok'], f"R-ens format::write_u32: {r['clause']} -- {r['detail'][:400]}", {'digits': r, 'config': ctx.cfg}, rule='E1h-decimal-digits')
    for t in d['notes']:
        rep.notes.append(f"[{ctx.cfg}] E1h: {t}")
    rep.extra.setdefault('digit_rendering', {})[ctx.cfg] = dict(n, instances=d['instances'], classes=d['classes'])


def extra_C04(rep, ctx):
    float_forms(rep, ctx, ('C04',))
    digit_rendering(rep, ctx)
    blank_pictures(rep, ctx)


def blank_pictures(rep, ctx):
    """stage E1k (sda/lexaccept.py): a picture that is one run of n blanks is accepted for every n"""
    if ctx.cfg in pipeline.ONLY:
        return
    d = pipeline.load_json(pipeline.ensure_stage('e1k', ctx.cfg))
    for r in d['records']:
        key = f"R-ens|format::Formatter::try_new::<&str>|{r['clause']}"
        rep.ob(key, r['ok'], f"R-ens format::Formatter::try_new::<&str>: {r['clause']} -- {r['detail'][:300]}", {'lexaccept': r, 'config': ctx.cfg}, rule='E1k-blank-picture')
    for t in d['notes']:
        rep.notes.append(f"[{ctx.cfg}] E1k (undecided, not a violation): {t}")
    rep.extra.setdefault('blank_pictures', {})[ctx.cfg] = {'exits': d['exits']}


def extra_C19(rep, ctx):
    blank_pictures(rep, ctx)
    t = tables.T(rep, ctx.facts)
    t.scalar(r'format::MAX_FIELDS$', 36, 'largest number of tokens of a picture')
    e1_obligations(rep, ctx, lambda o: o['kind'] == 'R-inv' and 'Field' in o['desc'])
    e1_obligations(rep, ctx, lambda o: o['kind'] == 'P-call' and 'StackVec::push' in o['desc'])


def extra_C16(rep, ctx):
    if 'oracle' not in ctx.facts.features:
        return
    e1_obligations(rep, ctx, lambda o: o['kind'] == 'C-cast')
    e1_obligations(rep, ctx, lambda o: o['kind'] == 'R-inv' and o['desc'] == 'construct oracle::Date')


def cmp_constants(rep, ctx, prop):
    """stage E1g (sda/cmpstage.py): a constant answer of a mixed partial_cmp must be possible for the converted counts"""
    if ctx.cfg in pipeline.ONLY:
        return
    d = pipeline.load_json(pipeline.ensure_stage('e1g', ctx.cfg))
    for r in d['records']:
        if r['prop'] != prop:
            continue
        key = f"R-ens|{r['root']}|{r['clause']}"
        rep.ob(key, r['ok'], f"R-ens {r['root']}: {r['clause']} -- {r['detail'][:400]}", {'cmpstage': r, 'config': ctx.cfg}, rule='E1g-constant-ordering')
    for t in d['notes']:
        rep.notes.append(f"[{ctx.cfg}] E1g (undecided, not a violation): {t}")
    rep.extra.setdefault('mixed_partial_cmp', {})[ctx.cfg] = {'roots': d['roots'], 'exits': d['exits']}


def extra_C12(rep, ctx):
    cmp_constants(rep, ctx, 'C12')


def extra_C17(rep, ctx):
    graph.delegation(rep, ctx.facts)
    cmp_constants(rep, ctx, 'C17')
    week_glue(rep, ctx)


def extra_C18(rep, ctx):
    graph.clock_readers(rep, ctx.facts)
    number_text(rep, ctx, only='parse_year')


EXTRA_RULES = {'C12': extra_C12, 'C04': extra_C04, 'C05': extra_C05, 'C16': extra_C16, 'C19': extra_C19, 'C06': extra_C06, 'C10': extra_C10, 'C11': extra_C11, 'C15': extra_C15, 'C17': extra_C17, 'C18': extra_C18}

PROPS = {
    'C01': prop_tables('C01', lambda rep, ctx: tables.c01_tables(rep, ctx.facts),
                       'calendar tables and anchors equal the Gregorian rule entry by entry; acceptance decision lists; day-number gate'),
    'C04': prop_tables('C04', lambda rep, ctx: tables.c04_tables(rep, ctx.facts),
                       'every string/offset table used by the formatter equals its generating rule entry by entry'),
    'C10': prop_contracts('C10', 'truncation characterised by congruence + remainder range per unit; offset tables entry by entry'),
    'C11': prop_contracts('C11', 'rounding thresholds, offset tables and error regions per unit'),
    'C02': prop_C02,
    'C03': prop_C03,
    'C07': prop_contracts('C07', 'affine-form and range contracts of DESIGN Appendix A for Timestamp::new/extract, Time::extract/try_from_hms/is_valid and the accessors, on every exit state'),
    'C08': prop_contracts('C08', 'gate_T(exact form) contracts for every add/sub operation: Ok value is the exact integer result, Err only with the result provably out of range'),
    'C09': prop_contracts('C09', 'month carry equation, unchanged day and time, gate = try_from_ymd; last_day_of_month = self + days_of_month - day'),
    'C12': prop_contracts('C12', 'time-of-day arithmetic: result congruent to t +/- i modulo 24h and inside [0, 24h) on every path'),
    'C13': prop_contracts('C13', 'interval decomposition identities, decision lists of the field constructors, negation, signed accessors'),
    'C16': prop_contracts('C16', 'whole-second congruence and floor characterisation of every Oracle-style date producer'),
    'C17': prop_contracts('C17', 'mixed comparisons compare the converted counts with the receiver on the left; Timestamp/OracleDate units delegate to the same trait item (resolved callee identity)'),
    'C06': prop_contracts('C06', 'writer/reader agreement (necessary conditions of the round trip): per type and token both sides accept or both reject; field widths of the reader equal what the writer can emit'),
    'C19': prop_contracts('C19', 'per-token contract on every exit path of the picture lexer (arbitrary input, arbitrary position): sound, complete with longest match for every documented spelling and letter case, name style from the first two letters, blank runs reproduced with their length; try_new accepts up to 36 tokens'),
    'C14': prop_contracts('C14', 'decision list of the float scaling functions on every exit state: zero test before dividing, infinite -> overflow, NaN -> invalid, own gate, product/quotient cast without rounding'),
    'C15': prop_contracts('C15', 'checked binary decoding (gate on the payload), channel agreement, static formatter identity and literal, buffer capacity'),
    'C18': prop_contracts('C18', 'who reads the clock (call graph), one reading per now()/conversion, chrono fields flow to the matching gate arguments'),
    'C05': prop_contracts('C05', 'assembly step T::try_from(record): value is the affine form of the fields (rounded-up fraction carries), never InvalidFraction; preconditions proved at the parser call sites'),
}


def run_property(pid, tier):
    if pid not in PROPS:
        raise AnalysisIncomplete(f"no check registered for {pid}")
    rep = Report(pid, tier)
    rep.stale = False
    PROPS[pid](rep, tier)
    return rep


def replay(pid, path):
    p = path if os.path.isabs(path) else os.path.join(VERIF, path)
    d = json.load(open(p))
    print(f"replay of {d['key']} for {pid}")
    print(d['text'])
    det = d.get('detail', {})
    o = det.get('obligation') or det.get('contract')
    root = None
    if det.get('obligation'):
        root = o['sample']['root']
    elif det.get('contract'):
        root = o['root']
    if root and not root.startswith('kernel:'):
        cfg = det.get('config', 'full')
        fp, _ = pipeline.ensure(cfg, need_e1=False)
        from .analyze import analyze
        import tempfile
        with tempfile.NamedTemporaryFile(suffix='.json', dir=pipeline.WORK, delete=True) as tf:
            out = analyze(fp, tf.name, jobs=1, only=root)
        bad = [x for x in out['obligations'] if x['fails']]
        for x in bad:
            print(f"  re-analysed: {x['kind']} {x['fn']} {x['desc']} @ {x['span']}: {x['sample']['detail'][:500]}")
        for r in out['roots']:
            for c in r['contracts']:
                if not c['ok']:
                    print(f"  re-analysed: contract {c['clause']}: {c['detail'][:500]}")
        return 1 if (bad or any(not c['ok'] for r in out['roots'] for c in r['contracts'])) else 0
    return 1
