"""C19: per-token contract on the picture lexer `FormatParser::next`, evaluated on the exit states of one
analysis with an arbitrary input and an arbitrary start position (content symbols for the bytes).

sound:     a path returning Some(f), f != Invalid, consumed bytes pinned to the case variants of a documented
           spelling of f (nothing consumed under a wildcard), payload as documented (style, digit, run length)
complete:  for every documented spelling, every letter-case variant and both continuations (end of the picture,
           a separator), every path compatible with that input returns the documented field with that length
           (so no longer documented token is split and no documented token is rejected)
"""
from __future__ import annotations

import itertools

from .lin import SYMTAB, Form
from .values import VAdt, VInt

PUNCT = {'-': 'Hyphen', ':': 'Colon', '/': 'Slash', '\\': 'Backslash', ',': 'Comma', '.': 'Dot', ';': 'Semicolon'}

# documented spellings (lower case; letters match case-insensitively, 'T' only in upper case)
SPELLINGS = [
    ('mm', 'Month', None), ('mon', 'MonthName', 'abbr'), ('month', 'MonthName', 'full'), ('dd', 'Day', None), ('ddd', 'DayOfYear', None),
    ('d', 'DayOfWeek', None), ('day', 'DayName', 'full'), ('dy', 'DayName', 'abbr'), ('hh', 'Hour12', None), ('hh12', 'Hour12', None),
    ('hh24', 'Hour24', None), ('mi', 'Minute', None), ('ss', 'Second', None), ('ff', 'Fraction', None),
    ('am', 'AmPm', 'plain'), ('pm', 'AmPm', 'plain'), ('a.m.', 'AmPm', 'dot'), ('p.m.', 'AmPm', 'dot'), ('w', 'WeekOfMonth', None),
    ('ww', 'WeekOfYear', None),
] + [(f"ff{k}", 'Fraction', k) for k in range(1, 10)]


def variants(s):
    opts = []
    for ch in s:
        if ch.isalpha():
            opts.append((ch.lower(), ch.upper()))
        else:
            opts.append((ch,))
    return [''.join(p) for p in itertools.product(*opts)]


def style_of(w, kind):
    a, b = w[0], w[1]
    if a.isupper() and b.isupper():
        st = 'Upper'
    elif a.isupper() and b.islower():
        st = 'Capital'
    else:
        st = 'Lower'
    return st if kind == 'full' else 'Abbr' + st


def ampm_style_of(w, kind):
    letters = [ch for ch in w if ch.isalpha()]
    lower = all(ch.islower() for ch in letters)
    return ('Lower' if lower else 'Upper') + ('Dot' if kind == 'dot' else '')


class Exit:
    def __init__(self, c, st, ret, lx):
        self.st = st
        self.c = c
        I = c.I
        obj = st.objs[lx['obj']]
        pos1 = obj.variants[0][lx['pos_idx']].form
        self.consumed = pos1.sub(lx['p0'])
        self.len_rng = st.num.rng2(lx['len'].sub(lx['p0']))
        self.kind = None
        self.payload = None
        self.field = None
        if isinstance(ret, VAdt) and ret.single() == 1:
            f = ret.variants[1][0]
            self.field = f
            t = I.facts.types[f.ty]
            names = {x['idx']: x['name'] for x in t['variants']}
            if f.single() is not None:
                self.kind = names[f.single()]
                fs = f.variants[f.single()]
                self.payload = fs[0] if fs else None
        elif isinstance(ret, VAdt) and ret.single() == 0:
            self.kind = 'None'
        self.bytes = {}
        for i in range(0, 8):
            key = ('op', 'byte', (lx['base'], lx['p0'].addc(i).key()))
            s = SYMTAB.cons.get(key)
            if s is None:
                continue
            lo, hi = st.num.slo(s), st.num.shi(s)
            ex = st.num.neq.get(s, frozenset())
            if lo > 0 or hi < 255 or ex:
                self.bytes[i] = (lo, hi, ex)

    def admits(self, i, b):
        cst = self.bytes.get(i)
        if cst is None:
            return True
        lo, hi, ex = cst
        return lo <= b <= hi and b not in ex

    def values(self, i):
        cst = self.bytes.get(i)
        if cst is None:
            return None
        lo, hi, ex = cst
        if hi - lo > 40:
            return None
        return {x for x in range(lo, hi + 1) if x not in ex}

    def consumed_const(self):
        return self.consumed.c if not self.consumed.terms else None

    def enum_name(self, v):
        if isinstance(v, VAdt) and v.single() is not None:
            t = self.c.I.facts.types[v.ty]
            return [x['name'] for x in t['variants'] if x['idx'] == v.single()][0]
        return None

    def compatible(self, w, look):
        """could this path be taken by an input that starts with text w and then ends (look=None) / continues with byte look"""
        n = len(w)
        for i, ch in enumerate(w):
            if not self.admits(i, ord(ch)):
                return False
        lo, hi = self.len_rng
        if look is None:
            if not (lo <= n <= hi):
                return False
            return not any(i >= n for i in self.bytes)
        if hi < n + 1:
            return False
        return self.admits(n, look)


def lexer_contract(c):
    I = c.I
    lx = I.spec.lexer_ctx
    exits = [Exit(c, st, ret, lx) for (st, ret) in c.exits]
    c.rec('C19', 'lexer: analysis produced exit paths', len(exits) >= 40, f"{len(exits)} paths")
    # ---------------- soundness
    for e in exits:
        if e.kind == 'None':
            c.rec('C19', 'lexer: None only at the end of the picture', e.len_rng == (0, 0) and e.consumed_const() == 0, f"remaining length in {e.len_rng}")
            continue
        if e.kind is None:
            c.rec('C19', 'lexer: result shape decided on the path', False, f"{e.field!r}")
            continue
        if e.kind == 'Invalid':
            continue
        k = e.consumed_const()
        desc = f"{e.kind}({e.enum_name(e.payload) or e.payload!r}) consuming {e.consumed!r}"
        if e.kind in PUNCT.values() or e.kind == 'T':
            want = [ch for ch, nm in PUNCT.items() if nm == e.kind] or ['T']
            ok = k == 1 and e.values(0) == {ord(want[0])}
            c.rec('C19', f"lexer sound: {e.kind} only for its own character", ok, f"{desc}; byte0 in {e.values(0)}")
            continue
        if e.kind == 'Blank':
            ok, why = _run_token(e, {32}, None, first_separate=True)
            c.rec('C19', 'lexer sound: Blank(n) consumes exactly n blanks and nothing else (no lossy counter)', ok, f"{desc}; {why}")
            continue
        if e.kind == 'Year':
            ok, why = _run_token(e, {ord('y'), ord('Y')}, 4, first_separate=False)
            c.rec('C19', 'lexer sound: Year(n) consumes exactly n letters Y (1..=4)', ok, f"{desc}; {why}")
            continue
        if e.kind == 'Fraction' and k == 3:
            # FF followed by a digit 1..=9: the digit is the payload
            ok = e.values(0) is not None and e.values(0) <= {70, 102} and e.values(1) is not None and e.values(1) <= {70, 102}
            v2 = e.values(2)
            pv = e.payload.variants.get(1) if isinstance(e.payload, VAdt) and e.payload.single() == 1 else None
            key = ('op', 'byte', (lx['base'], lx['p0'].addc(2).key()))
            bs = SYMTAB.cons.get(key)
            ok = ok and v2 is not None and v2 <= set(range(49, 58)) and pv is not None and bs is not None \
                and e.st.num.eq0(pv[0].form.sub(Form.sym(bs).addc(-48)))
            c.rec('C19', 'lexer sound: FF1..FF9 carry their digit', ok, f"{desc}; third byte in {sorted(v2) if v2 else None}")
            continue
        cands = [s for s in SPELLINGS if s[1] == e.kind and len(s[0]) == k]
        good = False
        why = 'no documented spelling of that length'
        for (s, kind, extra) in cands:
            ok = True
            for i, ch in enumerate(s):
                vs = e.values(i)
                allowed = {ord(ch.lower()), ord(ch.upper())} if ch.isalpha() else {ord(ch)}
                if vs is None or not vs <= allowed:
                    ok = False
                    why = f"byte {i} in {sorted(vs) if vs else 'unconstrained'} is not pinned to {sorted(allowed)} (spelling {s!r})"
                    break
            if not ok:
                continue
            # payload
            if kind in ('MonthName', 'DayName'):
                w = ''.join(chr(min(e.values(i))) if len(e.values(i)) == 1 else '?' for i in range(2))
                if '?' in w:
                    ok, why = False, 'the letter case of the first two letters is not decided on the path'
                else:
                    want = style_of(w, extra)
                    ok = e.enum_name(e.payload) == want
                    why = f"style {e.enum_name(e.payload)}, the first two letters {w!r} select {want}"
            elif kind == 'AmPm':
                w = ''.join(chr(min(e.values(i))) if len(e.values(i)) == 1 else '?' for i in range(k))
                if '?' in w:
                    ok, why = False, 'letter case not decided on the path'
                else:
                    want = ampm_style_of(w, extra)
                    ok = e.enum_name(e.payload) == want
                    why = f"style {e.enum_name(e.payload)}, spelling {w!r} selects {want}"
            elif kind == 'Fraction':
                if extra is None:
                    ok = isinstance(e.payload, VAdt) and e.payload.single() == 0
                    why = f"payload {e.payload!r}"
                else:
                    pv = e.payload.variants.get(1) if isinstance(e.payload, VAdt) else None
                    ok = pv is not None and e.payload.single() == 1 and e.st.num.rng(pv[0].form) == (extra, extra)
                    why = f"payload {e.payload!r} for digit {extra}"
            if ok:
                good = True
                break
        c.rec('C19', f"lexer sound: {e.kind} returned only for a documented spelling", good, f"{desc}; {why}")
    # ---------------- completeness / longest match
    for (s, kind, extra) in SPELLINGS:
        for w in variants(s):
            for look in (None, ord('-'), ord(' ')):
                comp = [e for e in exits if e.compatible(w, look)]
                okc = bool(comp)
                why = 'no path accepts this input'
                for e in comp:
                    good = e.kind == kind and e.consumed_const() == len(w)
                    if good and kind in ('MonthName', 'DayName'):
                        good = e.enum_name(e.payload) == style_of(w, extra)
                    if good and kind == 'AmPm':
                        good = e.enum_name(e.payload) == ampm_style_of(w, extra)
                    if good and kind == 'Fraction' and extra is not None:
                        pv = e.payload.variants.get(1) if isinstance(e.payload, VAdt) else None
                        key = ('op', 'byte', (lx['base'], lx['p0'].addc(2).key()))
                        bs = SYMTAB.cons.get(key)
                        # the payload is (third byte - '0'); for this input that is the digit of the spelling
                        good = pv is not None and bs is not None and e.st.num.eq0(pv[0].form.sub(Form.sym(bs).addc(-48))) \
                            and ord(w[2]) - 48 == extra
                    if not good:
                        okc = False
                        why = f"a compatible path returns {e.kind}({e.enum_name(e.payload) or ''}) consuming {e.consumed!r}"
                        break
                c.rec('C19', f"lexer complete: {s.upper()!r} is one token (longest match, any letter case)", okc,
                      f"input {w!r} followed by {'end' if look is None else repr(chr(look))}: {why}")
    for ch, nm in list(PUNCT.items()) + [('T', 'T')]:
        for look in (None, ord('x')):
            comp = [e for e in exits if e.compatible(ch, look)]
            ok = bool(comp) and all(e.kind == nm and e.consumed_const() == 1 for e in comp)
            c.rec('C19', f"lexer complete: {ch!r} is the token {nm}", ok, f"{[(e.kind, repr(e.consumed)) for e in comp]}")
    ok = any(e.kind == 'Year' for e in exits) and any(e.kind == 'Blank' for e in exits)
    c.rec('C19', 'lexer complete: Y-runs and blank runs are tokens', ok, '')


def _run_token(e, cls, cap, first_separate):
    """consumed = (1 +) count of a run of bytes of class cls (capped), payload = the number consumed"""
    cons = e.consumed
    const = cons.c
    terms = cons.terms
    if first_separate:
        if e.values(0) != cls:
            return False, f"first byte in {e.values(0)}"
        const -= 1
    if len(terms) == 0:
        n = None
    elif len(terms) == 1 and terms[0][1] == 1:
        n = terms[0][0]
    else:
        return False, 'consumed length is not a single run count'
    if const != 0:
        return False, f"consumed {cons!r}"
    if n is None:
        if not first_separate:
            return False, 'nothing counted'
        run = Form.const(0)
    else:
        d = SYMTAB.syms[n].data
        if not d or d[0] != 'count' or len(d) < 6:
            return False, f"the consumed length {cons!r} is not the run count itself ({d[:1] if d else None}): a lossy conversion lies between"
        if d[4] is None or set(d[4]) != cls or d[5] != cap:
            return False, f"run counted with class {d[4]}, cap {d[5]} (expected {sorted(cls)}, {cap})"
        run = Form.sym(n)
    total = run.addc(1) if first_separate else run
    p = e.payload
    if not isinstance(p, VInt):
        return False, f"payload {p!r}"
    if not (p.form == total or e.st.num.eq0(p.form.sub(total))):
        return False, f"payload {p.form!r} differs from the number of characters consumed {total!r}"
    if not first_separate:
        lo, hi = e.st.num.rng(total)
        if lo < 1:
            return False, 'empty run accepted'
    return True, ''


def try_new_contract(c):
    """Formatter::try_new: pictures of up to 36 tokens are accepted, longer ones and unknown text rejected"""
    I = c.I
    mx = 0
    n_ok = 0
    for (st, ret) in c.exits:
        kind, v = c.split_result(ret)
        if kind == 'ok':
            n_ok += 1
            fm = v
            t = I.facts.types[fm.ty]
            idx = {f['name']: i for i, f in enumerate(t['variants'][0]['fields'])}
            vec = fm.variants[0][idx['fields']]
            lo, hi = st.num.rng(vec.data)
            mx = max(mx, hi)
            c.rec('C19', 'try_new: an accepted picture has at most 36 tokens', hi <= 36, f"field count in [{lo}, {hi}]")
            fe = fm.variants[0][idx['format_exact']]
            c.rec('C19', 'try_new: format_exact starts false', getattr(fe, 'val', None) is False, f"{fe!r}")
        elif kind == 'err':
            # (v is None when the error value is an arbitrary Error converted from an allocation failure)
            c.rec('C19', 'try_new: rejection is a format error', v in ('InvalidFormat', 'TryReserveError', None), f"{v}")
    c.rec('C19', 'try_new: a picture of exactly 36 tokens is accepted', mx == 36, f"largest accepted field count {mx}")
    c.rec('C19', 'try_new: some picture is accepted', n_ok > 0)
