"""Hand-written models of external callees (DESIGN.md Appendix B).

Each model returns a list of (state, value) outcomes; models of functions that can panic
record a `P-call` obligation for their precondition.  An unknown external is assumed
total, returns TOP of the destination type and is listed as UNMODELLED-CALL.
"""
from __future__ import annotations

import re

from .facts import AnalysisIncomplete
from .lin import SYMTAB, Form, Infeasible
from .values import (UNINIT, UNIT, VAdt, VArray, VBool, VClosure, VFloat, VFn, VInt, VOpaque, VRef, VSlice,
                     VTuple, Val)

NONE, SOME = 0, 1
OK, ERR = 0, 1
CONTINUE, BREAK = 0, 1
ISIZE_MAX = (1 << 63) - 1


def dest_ty(t, body):
    p = t['dest']
    ty = body['locals'][p['l']]['ty']
    for e in p['p']:
        if e['k'] == 'field':
            ty = e['ty']
        elif e['k'] == 'deref':
            ty = None
    return ty


class Models:
    def __init__(self, facts):
        self.facts = facts
        self.table = {}
        self.last_class_set = None
        self.register()

    # ------------------------------------------------------------------ helpers
    def variant_ty(self, ty, vidx, fidx=0):
        t = self.facts.types.get(ty)
        if not t:
            return None
        for v in t.get('variants', []):
            if v['idx'] == vidx and fidx < len(v['fields']):
                return v['fields'][fidx]['ty']
        return None

    def some(self, ty, v):
        return VAdt(ty, {SOME: (v,)})

    def none(self, ty):
        return VAdt(ty, {NONE: ()})

    def deref(self, I, st, v):
        """value behind a reference value"""
        if isinstance(v, VRef):
            return I.load(st, v.root, v.path)
        return v

    def as_slice(self, I, st, v):
        v = self.deref(I, st, v) if isinstance(v, VRef) else v
        if isinstance(v, VRef):
            v = I.load(st, v.root, v.path)
        if isinstance(v, VSlice):
            return v
        if isinstance(v, VArray):
            ev = I.vjoin_many(st, list(v.elems)) if v.elems else VOpaque(None)
            return VSlice(('tmp', st.new_id()), Form.const(0), Form.const(len(v.elems)), ('vals', v), v.ety)
        return None

    def slice_iter(self, I, st, dty, s):
        """iterator value over slice s: exact position for concrete short sequences, a symbolic position for slices of
        at most 12 elements (their loops are unrolled exactly), position-free otherwise"""
        if s.elem[0] == 'vals' and s.len.is_const() and s.off.is_const() and s.len.c <= 8 and s.base[0] == 'cfields':
            return VOpaque(dty, 'iter', (s, 0))       # exact iteration over a concrete short sequence
        lo, hi = st.num.rng(s.len)
        if hi <= 12:
            return VOpaque(dty, 'iter', (s, VInt(Form.const(0), 'usize')))
        return VOpaque(dty, 'iter', (s,))

    # ------------------------------------------------------------------ generic sequences
    # Fallback for iterator adaptor chains that the tuned models ('iter', 'take', 'takewhile', 'enumerate', 'range') do not
    # cover.  A sequence is (base, pos, end, ops): base = ('slice', VSlice) | ('range', VInt start); items number pos..end
    # (VInt, usize) are still to come; ops are applied to each base item in order.
    def to_seqs(self, I, st, it):
        """list of (state, seq data) for an iterator value, or None"""
        z = VInt(Form.const(0), 'usize')
        if isinstance(it, VAdt) and self.facts.types.get(it.ty, {}).get('def', '').endswith('ops::Range') and it.single() == 0:
            a, b = it.variants[0]
            it = VOpaque(it.ty, 'range', (a, b))
        if not isinstance(it, VOpaque):
            return None
        if it.tag == 'seq':
            return [(st, it.data)]
        if it.tag == 'iter':
            sl = it.data[0]
            pos = z
            if len(it.data) == 2:
                pos = it.data[1] if isinstance(it.data[1], VInt) else VInt(Form.const(it.data[1]), 'usize')
            return [(st, (('slice', sl), pos, VInt(sl.len, 'usize'), ()))]
        if it.tag == 'enumerate':
            sl = it.data[0]
            return [(st, (('slice', sl), z, VInt(sl.len, 'usize'), (('enumerate', z),)))]
        if it.tag == 'take':
            sl, n = it.data
            if not isinstance(n, VInt):
                return None
            out = []
            for s2 in I.assume(st.copy(), ('cmp', 'le', n.form, sl.len), True):
                out.append((s2, (('slice', sl), z, VInt(n.form, 'usize'), ())))
            for s2 in I.assume(st.copy(), ('cmp', 'gt', n.form, sl.len), True):
                out.append((s2, (('slice', sl), z, VInt(sl.len, 'usize'), ())))
            return out
        if it.tag == 'range':
            a, b = it.data
            out = []
            for s2 in I.assume(st.copy(), ('cmp', 'le', a.form, b.form), True):
                out.append((s2, (('range', a), z, VInt(b.form.sub(a.form), 'usize'), ())))
            for s2 in I.assume(st.copy(), ('cmp', 'gt', a.form, b.form), True):
                out.append((s2, (('range', a), z, z, ())))
            return out
        return None

    def seq_items(self, I, st, seq, k):
        """item number k (a Form, pos <= k < end assumed by the caller) of the sequence: list of (state, item)"""
        base, pos, end, ops = seq
        rev = bool(ops) and ops[0][0] == 'rev'
        if base[0] == 'slice':
            sl = base[1]
            idx = end.form.addc(-1).sub(k) if rev else k
            item = VRef(('val', self.iter_elem(I, st, sl, idx)))
        else:
            start = base[1]
            if rev:
                raise AnalysisIncomplete('rev over a range')
            item = VInt(start.form.add(k), start.ty)
        cur = [(st, item)]
        for op in ops:
            if op[0] == 'rev':
                continue
            nxt = []
            for (s2, v) in cur:
                if op[0] == 'enumerate':
                    nxt.append((s2, VTuple([VInt(k.sub(op[1].form), 'usize'), v])))
                elif op[0] == 'copied':
                    nxt.append((s2, self.deref(I, s2, v)))
                elif op[0] == 'map':
                    nxt.extend(I.call_closure(s2, op[1], [v]))
                else:
                    raise AnalysisIncomplete(f"sequence op {op[0]}")
            cur = nxt
        return cur

    def seq_unroll(self, I, st, seq, init, step, limit=12):
        """fold step(state, acc, item) -> [(state, acc)] over the remaining items; exact unrolling, bounded"""
        base, pos, end, ops = seq
        rem = end.form.sub(pos.form)
        lo, hi = st.num.rng(rem)
        if hi > limit:
            raise AnalysisIncomplete(f"iteration over up to {hi} items")
        out = []
        for n in range(max(lo, 0), hi + 1):
            for sk in I.assume(st.copy(), ('cmp', 'eq', rem, Form.const(n)), True):
                cur = [(sk, init)]
                for i in range(n):
                    nxt = []
                    for (s2, acc) in cur:
                        for (s3, item) in self.seq_items(I, s2, seq, pos.form.addc(i)):
                            nxt.extend(step(s3, acc, item))
                    cur = nxt
                out.extend(cur)
        return out

    def pcall(self, I, st, body, bbi, t, name, ok, detail=''):
        return I.oblige('P-call', body['def'], bbi, name, t['sp'], ok, st, detail)

    # ------------------------------------------------------------------ dispatch
    def call_external(self, I, st, c, args, t, body, bbi, fid):
        decl = c.get('decl') or ''
        d = c.get('def') or ''
        h = self.table.get(decl) or self.table.get(d)
        if h is None:
            for pat, hh in self.patterns:
                if pat.search(decl) or pat.search(d):
                    h = hh
                    break
        dty = dest_ty(t, body)
        ctx = Ctx(I, st, c, args, t, body, bbi, fid, dty)
        if h is None:
            k = c.get('key') or decl
            if c.get('extbody') and k in I.facts.bodies:
                # a small library combinator whose MIR the extractor dumped: analyse it like local code
                r = I.call_ext_body(st, k, args)
                if r is not None:
                    return r
            I.unmodelled[k] = I.unmodelled.get(k, 0) + 1
            if t.get('target') is None:
                # an unmodelled external that never returns (panic / abort helpers): reaching it is a panic
                self.pcall(I, st, body, bbi, t, f"call of the diverging function {decl}", False, 'reachable')
                return []
            return [(st, I.top(st, dty, 'ext', assume_inv=False) if dty else VOpaque(None))]
        r = h(ctx)
        if r is None:
            return [(st, UNIT)]
        if isinstance(r, list):
            return r
        return [(st, r)]

    def join_opaque(self, I, st, a, b, sa, sb, widen, chg):
        if a.tag == 'stackvec':
            ln = I.vjoin(st, VInt(a.data, 'usize'), VInt(b.data, 'usize'), sa, sb, widen, chg)
            return VOpaque(a.ty, 'stackvec', ln.form)
        if a.tag in ('iter', 'enumerate', 'take', 'takewhile', 'range', 'seq'):
            if chg is not None:
                chg[0] = chg[0] or False
            return VOpaque(a.ty, a.tag, self._join_data(I, st, a.data, b.data, sa, sb, widen, chg))
        return None

    def _join_data(self, I, st, x, y, sa, sb, widen, chg):
        if isinstance(x, Val) and isinstance(y, Val):
            return I.vjoin(st, x, y, sa, sb, widen, chg)
        if isinstance(x, tuple) and isinstance(y, tuple) and len(x) == len(y):
            return tuple(self._join_data(I, st, p, q, sa, sb, widen, chg) for p, q in zip(x, y))
        if x == y:
            return x
        return None

    # ------------------------------------------------------------------ floats
    @staticmethod
    def fdown(x):
        import math
        return math.nextafter(x, -math.inf)

    @staticmethod
    def fup(x):
        import math
        return math.nextafter(x, math.inf)

    def int_to_float_rng(self, lo, hi):
        """outward-rounded float bounds of an integer interval"""
        import math
        try:
            fl, fh = float(lo), float(hi)
        except OverflowError:
            return None
        if fl > lo:
            fl = self.fdown(fl)
        if fh < hi:
            fh = self.fup(fh)
        return (fl, fh)

    def float_rng_binop(self, name, a, b):
        import math
        if a.rng is None or b.rng is None:
            return None
        (al, ah), (bl, bh) = a.rng, b.rng
        try:
            if name == 'mul':
                c = [al * bl, al * bh, ah * bl, ah * bh]
            elif name == 'div':
                if bl <= 0.0 <= bh:
                    return None
                c = [al / bl, al / bh, ah / bl, ah / bh]
            elif name == 'add':
                c = [al + bl, ah + bh]
            elif name == 'sub':
                c = [al - bh, ah - bl]
            else:
                return None
        except (OverflowError, ZeroDivisionError):
            return None
        if any(math.isnan(x) or math.isinf(x) for x in c):
            return None
        return (self.fdown(min(c)), self.fup(max(c)))

    def float_binop(self, I, st, op, a, b):
        if op in ('Eq', 'Ne', 'Lt', 'Le', 'Gt', 'Ge'):
            return I.unknown_bool(('fcmp', op.lower(), a, b))
        if not isinstance(a, VFloat) or not isinstance(b, VFloat):
            return VFloat(None, None)
        name = {'Add': 'add', 'Sub': 'sub', 'Mul': 'mul', 'Div': 'div', 'Rem': 'rem'}.get(op)
        if name is None:
            raise AnalysisIncomplete(f"float op {op}")
        cls = set()
        # IEEE class of the result, conservatively
        if 'nan' in a.cls or 'nan' in b.cls:
            cls.add('nan')
        if name == 'mul':
            if 'inf' in a.cls or 'inf' in b.cls:
                cls |= {'inf', 'nan'}      # inf * 0 = nan
            if 'fin' in a.cls and 'fin' in b.cls:
                cls |= {'fin', 'inf'}      # overflow
        elif name == 'div':
            if 'fin' in a.cls and 'fin' in b.cls:
                cls |= {'fin', 'inf', 'nan'}   # x/0 = inf, 0/0 = nan
            if 'inf' in a.cls:
                cls |= {'inf', 'nan'}
            if 'inf' in b.cls and 'fin' in a.cls:
                cls.add('fin')
        else:
            if 'inf' in a.cls or 'inf' in b.cls:
                cls |= {'inf', 'nan'}
            if 'fin' in a.cls and 'fin' in b.cls:
                cls |= {'fin', 'inf'}
        r = self.float_rng_binop(name, a, b)
        if r is not None and a.cls == frozenset(('fin',)) and b.cls == frozenset(('fin',)):
            # both operands finite and the (outward rounded) result interval is finite: no overflow, no NaN
            cls = {'fin'}
        return VFloat(frozenset(cls), (name, a.expr, b.expr), r)

    def assume_fcls(self, I, st, pred, truth):
        _, loc, fv, c = pred
        keep = (fv.cls & {c}) if truth else (fv.cls - {c})
        if not keep:
            return []
        if loc is not None:
            root, path = loc
            try:
                I.store(st, root, path, VFloat(frozenset(keep), fv.expr))
            except AnalysisIncomplete:
                pass
        return [st]

    def ordering(self, I, st, fa, fb):
        ty = None
        for name, t in self.facts.types.items():
            if t.get('k') == 'adt' and t.get('def') == 'std::cmp::Ordering':
                ty = name
        if ty is None:
            return VOpaque(None, 'ordering')
        t = self.facts.types[ty]
        idx = {v['name']: v['idx'] for v in t['variants']}
        d = st.num.rng(fa.sub(fb))
        vs = {}
        if d[0] < 0:
            vs[idx['Less']] = ()
        if d[0] <= 0 <= d[1]:
            vs[idx['Equal']] = ()
        if d[1] > 0:
            vs[idx['Greater']] = ()
        return VAdt(ty, vs)

    # ------------------------------------------------------------------ Formatter container (assume-guarantee)
    def field_value(self, I, st, ty):
        """an arbitrary Field satisfying the payload invariants established by Formatter::try_new"""
        t = self.facts.types[ty]
        vs = {}
        for v in t['variants']:
            nm = v['name']
            if nm == 'Invalid':
                continue
            fs = []
            for f in v['fields']:
                if nm == 'Year':
                    fs.append(I.fresh_int(st, f['ty'], 'year_n', 1, 4))
                elif nm == 'Fraction':
                    oty = f['ty']
                    inner = self.variant_ty(oty, SOME)
                    fs.append(VAdt(oty, {NONE: (), SOME: (I.fresh_int(st, inner, 'frac_p', 1, 9),)}))
                else:
                    fs.append(I.top(st, f['ty'], nm.lower(), assume_inv=False))
            vs[v['idx']] = tuple(fs)
        return VAdt(ty, vs)

    def check_field_inv(self, I, st, v, body, bbi, t):
        """R-inv for a Field pushed into the Formatter container"""
        if not isinstance(v, VAdt):
            return self.pcall(I, st, body, bbi, t, 'R-inv Field pushed', False, f"{v!r}")
        ft = self.facts.types[v.ty]
        names = {x['idx']: x['name'] for x in ft['variants']}
        ok = True
        why = ''
        for vi, fs in v.variants.items():
            nm = names[vi]
            if nm == 'Invalid':
                ok, why = False, 'Field::Invalid stored'
            elif nm == 'Year':
                lo, hi = st.num.rng(fs[0].form)
                if lo < 1 or hi > 4:
                    ok, why = False, f"Year({lo}..{hi})"
            elif nm == 'Fraction':
                o = fs[0]
                if isinstance(o, VAdt) and SOME in o.variants:
                    lo, hi = st.num.rng(o.variants[SOME][0].form)
                    if lo < 1 or hi > 9:
                        ok, why = False, f"Fraction(Some({lo}..{hi}))"
        I.oblige('R-inv', body['def'], bbi, 'Field stored in Formatter', t['sp'], ok, st, why)
        return ok

    def formatter_value(self, I, st, ty):
        t = self.facts.types[ty]
        fs = []
        for f in t['variants'][0]['fields']:
            if f['name'] == 'fields':
                ln = I.fresh_int(st, 'usize', 'nfields', 0, 36)
                fs.append(VOpaque(f['ty'], 'stackvec', ln.form))
            else:
                fs.append(I.top(st, f['ty'], f['name'], assume_inv=False))
        return VAdt(ty, {0: tuple(fs)})

    # ------------------------------------------------------------------ registry
    def register(self):
        T = self.table
        self.patterns = []

        def reg(*names):
            def deco(fn):
                for n in names:
                    T[n] = fn
                return fn
            return deco

        def regp(pat):
            def deco(fn):
                self.patterns.append((re.compile(pat), fn))
                return fn
            return deco

        M = self

        # ---- integers
        @regp(r'^core::num::<impl i(?:\d+|size)>::is_negative$')
        def is_negative(c):
            a = c.args[0]
            return c.I.mkbool(c.st, ('cmp', 'lt', a.form, Form.const(0)))

        @regp(r'^core::num::<impl [iu](?:\d+|size)>::checked_(add|sub)$')
        def checked(c):
            a, b = c.args
            ity = a.ty
            f = a.form.add(b.form) if c.c['decl'].endswith('add') else a.form.sub(b.form)
            lo, hi = c.I.irange(ity)
            out = []
            inr = ('and', ('cmp', 'ge', f, Form.const(lo)), ('cmp', 'le', f, Form.const(hi)))
            for s2 in c.I.assume(c.st.copy(), inr, True):
                out.append((s2, M.some(c.dty, VInt(f, ity))))
            for s2 in c.I.assume(c.st.copy(), ('cmp', 'lt', f, Form.const(lo)), True):
                out.append((s2, M.none(c.dty)))
            for s2 in c.I.assume(c.st.copy(), ('cmp', 'gt', f, Form.const(hi)), True):
                out.append((s2, M.none(c.dty)))
            return out

        def three_way(c, f, ity, below, inr, above):
            """case split of the mathematical result f against the range of ity"""
            lo, hi = c.I.irange(ity)
            out = []
            for s2 in c.I.assume(c.st.copy(), ('and', ('cmp', 'ge', f, Form.const(lo)), ('cmp', 'le', f, Form.const(hi))), True):
                out.append((s2, inr(s2)))
            for s2 in c.I.assume(c.st.copy(), ('cmp', 'lt', f, Form.const(lo)), True):
                out.append((s2, below(s2)))
            for s2 in c.I.assume(c.st.copy(), ('cmp', 'gt', f, Form.const(hi)), True):
                out.append((s2, above(s2)))
            return out

        def arith_form(c, name):
            a, b = c.args
            op = {'add': 'Add', 'sub': 'Sub', 'mul': 'Mul'}[name]
            return c.I.int_binop(c.st, op, a, b, a.ty)

        @regp(r'^core::num::<impl [iu](?:\d+|size)>::checked_mul$')
        def checked_mul(c):
            a = c.args[0]
            f = arith_form(c, 'mul')
            return three_way(c, f, a.ty, lambda s2: M.none(c.dty), lambda s2: M.some(c.dty, VInt(f, a.ty)), lambda s2: M.none(c.dty))

        @regp(r'^core::num::<impl [iu](?:\d+|size)>::saturating_(add|sub|mul)$')
        def saturating(c):
            a = c.args[0]
            name = c.c['decl'].rsplit('_', 1)[1]
            f = arith_form(c, name)
            lo, hi = c.I.irange(a.ty)
            return three_way(c, f, a.ty, lambda s2: c.I.cint(lo, a.ty), lambda s2: VInt(f, a.ty), lambda s2: c.I.cint(hi, a.ty))

        @regp(r'^core::num::<impl [iu](?:\d+|size)>::wrapping_(add|sub|mul)$')
        def wrapping(c):
            a = c.args[0]
            name = c.c['decl'].rsplit('_', 1)[1]
            f = arith_form(c, name)
            return c.I.wrap_or_keep(c.st, f, a.ty)

        @regp(r'^core::num::<impl [iu](?:\d+|size)>::overflowing_(add|sub|mul)$')
        def overflowing(c):
            a = c.args[0]
            name = c.c['decl'].rsplit('_', 1)[1]
            f = arith_form(c, name)
            return three_way(c, f, a.ty,
                             lambda s2: VTuple([c.I.wrap_or_keep(s2, f, a.ty), VBool(True)]),
                             lambda s2: VTuple([VInt(f, a.ty), VBool(False)]),
                             lambda s2: VTuple([c.I.wrap_or_keep(s2, f, a.ty), VBool(True)]))

        @regp(r'^core::num::<impl i(?:\d+|size)>::(checked_neg|wrapping_neg)$')
        def neg_ops(c):
            a = c.args[0]
            f = a.form.neg()
            if c.c['decl'].endswith('wrapping_neg'):
                return c.I.wrap_or_keep(c.st, f, a.ty)
            return three_way(c, f, a.ty, lambda s2: M.none(c.dty), lambda s2: M.some(c.dty, VInt(f, a.ty)), lambda s2: M.none(c.dty))

        @regp(r'^core::num::<impl [iu](?:\d+|size)>::checked_(div|rem)$')
        def checked_div(c):
            a, b = c.args
            want_q = c.c['decl'].endswith('div')
            out = []
            lo, hi = c.I.irange(a.ty)
            for s2 in c.I.assume(c.st.copy(), ('cmp', 'eq', b.form, Form.const(0)), True):
                out.append((s2, M.none(c.dty)))
            for s2 in c.I.assume(c.st.copy(), ('cmp', 'ne', b.form, Form.const(0)), True):
                if lo < 0:
                    # MIN / -1 overflows
                    for s3 in c.I.assume(s2.copy(), ('and', ('cmp', 'eq', a.form, Form.const(lo)), ('cmp', 'eq', b.form, Form.const(-1))), True):
                        out.append((s3, M.none(c.dty)))
                    rest = c.I.assume(s2.copy(), ('and', ('cmp', 'eq', a.form, Form.const(lo)), ('cmp', 'eq', b.form, Form.const(-1))), False)
                else:
                    rest = [s2]
                for s3 in rest:
                    f = c.I.int_binop(s3, 'Div' if want_q else 'Rem', a, b, a.ty)
                    out.append((s3, M.some(c.dty, VInt(f, a.ty))))
            return out

        @regp(r'^core::num::<impl [iu](?:\d+|size)>::abs_diff$')
        def abs_diff(c):
            a, b = c.args
            uty = 'u' + a.ty[1:]
            out = []
            for s2 in c.I.assume(c.st.copy(), ('cmp', 'ge', a.form, b.form), True):
                out.append((s2, VInt(a.form.sub(b.form), uty)))
            for s2 in c.I.assume(c.st.copy(), ('cmp', 'lt', a.form, b.form), True):
                out.append((s2, VInt(b.form.sub(a.form), uty)))
            return out

        @regp(r'^(std::cmp::Ord::(min|max)|std::cmp::(min|max)::<[iu]\d+>|std::cmp::(min|max))$')
        def minmax(c):
            a, b = c.args
            if not (isinstance(a, VInt) and isinstance(b, VInt)):
                return c.I.top(c.st, c.dty, 'minmax', assume_inv=False)
            is_min = c.c['decl'].rsplit('::', 1)[1].startswith('min') or '::min::' in c.c['decl']
            out = []
            for s2 in c.I.assume(c.st.copy(), ('cmp', 'le', a.form, b.form), True):
                out.append((s2, a if is_min else b))
            for s2 in c.I.assume(c.st.copy(), ('cmp', 'gt', a.form, b.form), True):
                out.append((s2, b if is_min else a))
            return out

        @reg('std::cmp::Ord::clamp')
        def clamp(c):
            x, lo, hi = c.args
            if not all(isinstance(v, VInt) for v in (x, lo, hi)):
                return c.I.top(c.st, c.dty, 'clamp', assume_inv=False)
            M.pcall(c.I, c.st, c.body, c.bbi, c.t, 'clamp: min > max', c.st.num.le0(lo.form.sub(hi.form)), f"min {lo.form!r}, max {hi.form!r}")
            out = []
            for s2 in c.I.assume(c.st.copy(), ('cmp', 'lt', x.form, lo.form), True):
                out.append((s2, lo))
            for s2 in c.I.assume(c.st.copy(), ('cmp', 'gt', x.form, hi.form), True):
                out.append((s2, hi))
            for s2 in c.I.assume(c.st.copy(), ('and', ('cmp', 'ge', x.form, lo.form), ('cmp', 'le', x.form, hi.form)), True):
                out.append((s2, x))
            return out

        @regp(r'^core::num::<impl i(?:\d+|size)>::abs$')
        def iabs(c):
            a = c.args[0]
            lo, hi = c.I.irange(a.ty)
            mn = c.st.num.rng(a.form)[0]
            # debug builds panic on abs(MIN)
            M.pcall(c.I, c.st, c.body, c.bbi, c.t, f"{a.ty}::abs(MIN) overflow", mn > lo, f"operand >= {mn}")
            out = []
            for s2 in c.I.assume(c.st.copy(), ('cmp', 'ge', a.form, Form.const(0)), True):
                out.append((s2, VInt(a.form, a.ty)))
            for s2 in c.I.assume(c.st.copy(), ('cmp', 'lt', a.form, Form.const(0)), True):
                out.append((s2, c.I.wrap_or_keep(s2, a.form.neg(), a.ty)))
            return out

        @regp(r'^core::num::<impl i(?:\d+|size)>::signum$')
        def signum(c):
            a = c.args[0]
            out = []
            for s2 in c.I.assume(c.st.copy(), ('cmp', 'gt', a.form, Form.const(0)), True):
                out.append((s2, c.I.cint(1, a.ty)))
            for s2 in c.I.assume(c.st.copy(), ('cmp', 'eq', a.form, Form.const(0)), True):
                out.append((s2, c.I.cint(0, a.ty)))
            for s2 in c.I.assume(c.st.copy(), ('cmp', 'lt', a.form, Form.const(0)), True):
                out.append((s2, c.I.cint(-1, a.ty)))
            return out

        @regp(r'^core::num::<impl [iu](?:\d+|size)>::(div_euclid|rem_euclid)$')
        def euclid(c):
            a, b = c.args
            lo, hi = c.st.num.rng(b.form)
            if lo != hi or lo <= 0:
                M.pcall(c.I, c.st, c.body, c.bbi, c.t, 'euclidean division by zero / overflow', lo > 0 or hi < -1, f"divisor in [{lo}, {hi}]")
                return c.I.top(c.st, c.dty, 'euclid')
            k = lo
            if a.form.c % k == 0 and all(kk % k == 0 for _, kk in a.form.terms):
                # every value of the dividend is a multiple of k: exact
                qf = Form(a.form.c // k, tuple((s_, kk // k) for s_, kk in a.form.terms))
                return VInt(qf, a.ty) if c.c['decl'].endswith('div_euclid') else c.I.cint(0, a.ty)
            # floor division through the truncating quotient and remainder: three cases, as a hand-written
            # implementation would split them (keeps the Div/Rem machinery of the numeric domain)
            want_q = c.c['decl'].endswith('div_euclid')
            out = []
            kk = VInt(Form.const(k), a.ty)
            for s2 in c.I.assume(c.st.copy(), ('cmp', 'ge', a.form, Form.const(0)), True):
                qf = c.I.int_binop(s2, 'Div', a, kk, a.ty)
                rf = a.form.sub(qf.scale(k))
                out.append((s2, VInt(qf if want_q else rf, a.ty)))
            for s2 in c.I.assume(c.st.copy(), ('cmp', 'lt', a.form, Form.const(0)), True):
                qf = c.I.int_binop(s2, 'Div', a, kk, a.ty)
                rf = a.form.sub(qf.scale(k))
                for s3 in c.I.assume(s2.copy(), ('cmp', 'eq', rf, Form.const(0)), True):
                    out.append((s3, VInt(qf if want_q else Form.const(0), a.ty)))
                for s3 in c.I.assume(s2.copy(), ('cmp', 'lt', rf, Form.const(0)), True):
                    out.append((s3, VInt(qf.addc(-1) if want_q else rf.addc(k), a.ty)))
            return out

        @regp(r'^core::num::<impl i(?:\d+|size)>::unsigned_abs$')
        def uabs(c):
            a = c.args[0]
            uty = 'u' + a.ty[1:]
            out = []
            for s2 in c.I.assume(c.st.copy(), ('cmp', 'ge', a.form, Form.const(0)), True):
                out.append((s2, VInt(a.form, uty)))
            for s2 in c.I.assume(c.st.copy(), ('cmp', 'lt', a.form, Form.const(0)), True):
                out.append((s2, VInt(a.form.neg(), uty)))
            return out

        @reg('core::num::<impl u8>::is_ascii_digit')
        def is_digit(c):
            b = M.deref(c.I, c.st, c.args[0])
            return c.I.mkbool(c.st, ('and', ('cmp', 'ge', b.form, Form.const(48)), ('cmp', 'le', b.form, Form.const(57))))

        @reg('core::num::<impl u8>::is_ascii_whitespace')
        def is_ws(c):
            return c.I.unknown_bool()

        @reg('core::num::<impl u8>::eq_ignore_ascii_case')
        def u8_eqic(c):
            a = M.deref(c.I, c.st, c.args[0])
            b = M.deref(c.I, c.st, c.args[1])
            if isinstance(b, VInt) and b.form.is_const() and isinstance(a, VInt):
                ch = b.form.c
                alts = {ch}
                if 65 <= ch <= 90:
                    alts.add(ch + 32)
                if 97 <= ch <= 122:
                    alts.add(ch - 32)
                p = None
                for x in sorted(alts):
                    q = ('cmp', 'eq', a.form, Form.const(x))
                    p = q if p is None else ('or', p, q)
                return c.I.mkbool(c.st, p)
            return c.I.unknown_bool()

        @reg('std::cmp::Ord::cmp', 'std::cmp::PartialOrd::partial_cmp')
        def cmp(c):
            a = M.deref(c.I, c.st, c.args[0])
            b = M.deref(c.I, c.st, c.args[1])
            if isinstance(a, VInt) and isinstance(b, VInt):
                o = M.ordering(c.I, c.st, a.form, b.form)
                c.I.events.append(('cmp', c.body['def'], a.form, b.form))
                if c.c['decl'].endswith('partial_cmp'):
                    return M.some(c.dty, o)
                return o
            return c.I.top(c.st, c.dty, 'cmp', assume_inv=False)

        @reg('std::cmp::PartialEq::eq')
        def peq(c):
            a = M.deref(c.I, c.st, c.args[0])
            b = M.deref(c.I, c.st, c.args[1])
            if isinstance(a, VInt) and isinstance(b, VInt):
                return c.I.mkbool(c.st, ('cmp', 'eq', a.form, b.form))
            return c.I.unknown_bool()

        @reg('std::cmp::PartialEq::ne')
        def pne(c):
            a = M.deref(c.I, c.st, c.args[0])
            b = M.deref(c.I, c.st, c.args[1])
            if (c.c.get('args') or [''])[0] == 'date::WeekDay':
                c.st.notes['dowcmp'] = c.st.notes.get('dowcmp', 0) + 1
            if isinstance(a, VAdt) and isinstance(b, VAdt) and a.single() is not None and b.single() is not None:
                if not a.variants[a.single()] and not b.variants[b.single()]:
                    return VBool(a.single() != b.single())
            return c.I.unknown_bool()

        # ---- floats
        def fcls_of(c, v):
            """class set of float v on this path: its own, refined by the classification tests already taken on the
            same expression (the tests refine a temporary copy; the path remembers them by expression)"""
            cls = set(v.cls)
            if v.expr is not None:
                for (tst, truth) in c.st.notes.get('fpath', ()):
                    if isinstance(tst, tuple) and len(tst) == 2 and tst[1] == v.expr and tst[0] in ('is_inf', 'is_nan', 'is_fin'):
                        one = {tst[0][3:]}
                        cls = (cls & one) if truth else (cls - one)
            return cls

        def fclass_test(c, which):
            v = c.args[0]
            if not isinstance(v, VFloat):
                return c.I.unknown_bool()
            cls = fcls_of(c, v)
            if cls == {which}:
                return VBool(True)
            if which not in cls:
                return VBool(False)
            return c.I.unknown_bool(('fcls', M.arg_loc(c, 0), v, which))

        @reg('core::f64::<impl f64>::is_infinite')
        def is_inf(c):
            return fclass_test(c, 'inf')

        @reg('core::f64::<impl f64>::is_finite')
        def f_finite(c):
            return fclass_test(c, 'fin')

        @reg('core::f64::<impl f64>::is_nan')
        def is_nan(c):
            return fclass_test(c, 'nan')

        @reg('std::f64::<impl f64>::round')
        def fround(c):
            v = c.args[0]
            import math
            r = None
            if v.rng is not None:
                r = (float(math.floor(v.rng[0])), float(math.ceil(v.rng[1])))
            return VFloat(v.cls, ('round', v.expr), r)

        # ---- Option / Result / Try
        @reg('std::ops::Try::branch')
        def branch(c):
            r = c.args[0]
            if not isinstance(r, VAdt):
                r = c.I.top(c.st, c.c['args'][0], 'res', assume_inv=False)
            brk_ty = M.variant_ty(c.dty, BREAK)
            name = M.facts.types.get(r.ty, {}).get('def', '')
            out = []
            for vi, fs in r.variants.items():
                if name.endswith('Option'):
                    if vi == SOME:
                        out.append((c.st.copy(), VAdt(c.dty, {CONTINUE: (fs[0],)})))
                    else:
                        out.append((c.st.copy(), VAdt(c.dty, {BREAK: (VAdt(brk_ty, {NONE: ()}),)})))
                else:
                    if vi == OK:
                        out.append((c.st.copy(), VAdt(c.dty, {CONTINUE: (fs[0],)})))
                    else:
                        out.append((c.st.copy(), VAdt(c.dty, {BREAK: (VAdt(brk_ty, {ERR: (fs[0],)}),)})))
            return out

        @reg('std::ops::FromResidual::from_residual')
        def from_residual(c):
            r = c.args[0]
            dt = M.facts.types.get(c.dty, {})
            if dt.get('def', '').endswith('Option'):
                return M.none(c.dty)
            ety = M.variant_ty(c.dty, ERR)
            e = None
            if isinstance(r, VAdt) and ERR in r.variants:
                e = r.variants[ERR][0]
                if isinstance(e, VAdt) and e.ty != ety:
                    e = None
                elif not isinstance(e, VAdt):
                    e = None
            if e is None:
                e = c.I.top(c.st, ety, 'err', assume_inv=False)
            return VAdt(c.dty, {ERR: (e,)})

        @regp(r'^std::option::Option::<.*>::is_some$')
        def is_some(c):
            return M.opt_test(c, True)

        @regp(r'^std::option::Option::<.*>::is_none$')
        def is_none(c):
            return M.opt_test(c, False)

        @regp(r'^std::option::Option::<.*>::unwrap$')
        def opt_unwrap(c):
            o = c.args[0]
            if not isinstance(o, VAdt):
                M.pcall(c.I, c.st, c.body, c.bbi, c.t, 'Option::unwrap on None', False, f"{o!r}")
                return c.I.top(c.st, c.dty, 'unwrap')
            ok = NONE not in o.variants
            M.pcall(c.I, c.st, c.body, c.bbi, c.t, 'Option::unwrap on None', ok, 'value may be None')
            if SOME not in o.variants:
                return []
            return o.variants[SOME][0]

        @regp(r'^std::option::Option::<.*>::unwrap_or$')
        def opt_unwrap_or(c):
            o, dflt = c.args
            out = []
            if isinstance(o, VAdt):
                if SOME in o.variants:
                    out.append((c.st.copy(), o.variants[SOME][0]))
                if NONE in o.variants:
                    out.append((c.st.copy(), dflt))
                return out
            return c.I.top(c.st, c.dty, 'unwrap_or')

        @regp(r'^std::option::Option::<&T>::copied$')
        def opt_copied(c):
            o = c.args[0]
            if isinstance(o, VAdt):
                vs = {}
                for vi, fs in o.variants.items():
                    vs[vi] = tuple(M.deref(c.I, c.st, f) for f in fs)
                return VAdt(c.dty, vs)
            return c.I.top(c.st, c.dty, 'copied')

        @regp(r'^std::option::Option::<.*>::map_or$')
        def opt_map_or(c):
            o, dflt, f = c.args
            out = []
            if isinstance(o, VAdt):
                if NONE in o.variants:
                    out.append((c.st.copy(), dflt))
                if SOME in o.variants:
                    out.extend(c.I.call_closure(c.st.copy(), f, [o.variants[SOME][0]]))
                return out
            raise AnalysisIncomplete("map_or on opaque")

        @regp(r'^std::result::Result::<.*>::unwrap$')
        def res_unwrap(c):
            r = c.args[0]
            if not isinstance(r, VAdt):
                M.pcall(c.I, c.st, c.body, c.bbi, c.t, 'Result::unwrap on Err', False, f"{r!r}")
                return c.I.top(c.st, c.dty, 'unwrap')
            ok = ERR not in r.variants
            M.pcall(c.I, c.st, c.body, c.bbi, c.t, 'Result::unwrap on Err', ok, 'value may be Err')
            if OK not in r.variants:
                return []
            return r.variants[OK][0]

        @regp(r'^std::result::Result::<.*>::map_err$')
        def map_err(c):
            r, f = c.args
            out = []
            ety = M.variant_ty(c.dty, ERR)
            if isinstance(r, VAdt):
                if OK in r.variants:
                    out.append((c.st.copy(), VAdt(c.dty, {OK: r.variants[OK]})))
                if ERR in r.variants:
                    fv = f
                    if isinstance(fv, VClosure) or (isinstance(fv, VFn) and all(k in M.facts.bodies for k in fv.keys)):
                        for (s2, e2) in c.I.call_closure(c.st.copy(), fv, [r.variants[ERR][0]]):
                            out.append((s2, VAdt(c.dty, {ERR: (e2,)})))
                    else:
                        out.append((c.st.copy(), VAdt(c.dty, {ERR: (c.I.top(c.st, ety, 'err', assume_inv=False),)})))
                return out
            return c.I.top(c.st, c.dty, 'map_err', assume_inv=False)

        # ---- conversions
        @reg('std::convert::Into::into')
        def into(c):
            fw = c.c.get('forward')
            if fw:
                return c.I.call_local(c.st, fw, [c.args[0]])
            a = c.args[0]
            if isinstance(a, VInt) and c.dty and c.I.facts.int_range(c.dty) is not None and c.dty != 'bool':
                slo, shi = c.I.irange(a.ty)
                dlo, dhi = c.I.irange(c.dty)
                if dlo <= slo and shi <= dhi:
                    return VInt(a.form, c.dty)       # core's lossless integer conversions
            return c.I.top(c.st, c.dty, 'into', assume_inv=False)

        @reg('std::default::Default::default')
        def default(c):
            if c.dty == 'bool':
                return VBool(False)
            if c.dty and c.I.facts.int_range(c.dty) is not None:
                return c.I.cint(0, c.dty)
            k = c.c.get('key') or 'Default::default'
            c.I.unmodelled[k] = c.I.unmodelled.get(k, 0) + 1
            return c.I.top(c.st, c.dty, 'default', assume_inv=False)

        @reg('std::convert::AsRef::as_ref')
        def as_ref(c):
            v = c.args[0]
            v = M.deref(c.I, c.st, v)
            return v

        @reg('core::str::<impl str>::as_bytes', 'std::str::from_utf8_unchecked')
        def ident(c):
            return c.args[0]

        @reg('std::iter::IntoIterator::into_iter')
        def into_iter(c):
            a = c.args[0]
            if isinstance(a, VAdt):
                t = M.facts.types.get(a.ty, {})
                if t.get('def', '').endswith('ops::Range'):
                    s, e = a.variants[0]
                    return VOpaque(c.dty, 'range', (s, e))
            if c.dty and c.dty.startswith('std::slice::Iter<'):
                sl = M.as_slice(c.I, c.st, a)
                if sl is not None:
                    return M.slice_iter(c.I, c.st, c.dty, sl)
            if isinstance(a, VOpaque) and a.tag in ('take', 'enumerate') and c.c.get('decl', '').endswith('IntoIterator::into_iter'):
                # an adaptor consumed by a `for` loop: one representation from the first iteration on (joins at the loop head)
                seqs = M.to_seqs(c.I, c.st, a)
                if seqs is not None and a.tag == 'take':
                    return [(s2, VOpaque(a.ty, 'seq', seq)) for (s2, seq) in seqs]
            return a

        # ---- slices / strs
        @reg('core::slice::<impl [T]>::len', 'core::str::<impl str>::len')
        def slen(c):
            s = M.as_slice(c.I, c.st, c.args[0])
            if s is None:
                return c.I.fresh_int(c.st, 'usize', 'len', 0, ISIZE_MAX)
            return VInt(s.len, 'usize')

        @reg('core::slice::<impl [T]>::is_empty', 'core::str::<impl str>::is_empty')
        def sempty(c):
            s = M.as_slice(c.I, c.st, c.args[0])
            if s is None:
                return c.I.unknown_bool()
            return c.I.mkbool(c.st, ('cmp', 'eq', s.len, Form.const(0)))

        @reg('core::slice::<impl [T]>::first')
        def sfirst(c):
            s = M.as_slice(c.I, c.st, c.args[0])
            out = []
            for s2 in c.I.assume(c.st.copy(), ('cmp', 'ge', s.len, Form.const(1)), True):
                e = c.I.slice_elem(s2, s, Form.const(0))
                out.append((s2, M.some(c.dty, VRef(('val', e)))))
            for s2 in c.I.assume(c.st.copy(), ('cmp', 'eq', s.len, Form.const(0)), True):
                out.append((s2, M.none(c.dty)))
            return out

        @reg('core::slice::<impl [T]>::contains', 'core::slice::<impl [T]>::ends_with', 'core::str::<impl str>::ends_with', 'core::str::<impl str>::contains',
             'core::str::<impl str>::is_char_boundary', 'core::str::<impl str>::is_ascii', 'core::slice::ascii::<impl [u8]>::is_ascii')
        def spure(c):
            return c.I.unknown_bool()

        @reg('core::slice::<impl [T]>::strip_prefix', 'core::slice::<impl [T]>::strip_suffix')
        def sstrip(c):
            s = M.as_slice(c.I, c.st, c.args[0])
            pat = M.as_slice(c.I, c.st, c.args[1])
            if s is None or pat is None:
                return c.I.top(c.st, c.dty, 'strip', assume_inv=False)
            out = [(c.st.copy(), M.none(c.dty))]
            for s2 in c.I.assume(c.st.copy(), ('cmp', 'le', pat.len, s.len), True):
                off = s.off.add(pat.len) if c.c['decl'].endswith('strip_prefix') else s.off
                out.append((s2, M.some(c.dty, VSlice(s.base, off, s.len.sub(pat.len), s.elem, s.ety))))
            return out

        @reg('std::char::methods::<impl char>::to_digit')
        def to_digit(c):
            radix = c.args[1]
            lo, hi = c.st.num.rng(radix.form)
            M.pcall(c.I, c.st, c.body, c.bbi, c.t, 'to_digit: radix outside 2..=36', 2 <= lo and hi <= 36, f"radix in [{lo}, {hi}]")
            s2 = c.st.copy()
            d = c.I.fresh_int(s2, 'u32', 'digit', 0, 35)
            out = [(c.st.copy(), M.none(c.dty))]
            for s3 in c.I.assume(s2, ('cmp', 'lt', d.form, radix.form), True):
                out.append((s3, M.some(c.dty, d)))
            return out

        @reg('std::mem::swap')
        def mswap(c):
            a, b = c.args
            if not (isinstance(a, VRef) and isinstance(b, VRef)):
                raise AnalysisIncomplete('mem::swap on non-references')
            va = c.I.load(c.st, a.root, a.path)
            vb = c.I.load(c.st, b.root, b.path)
            c.I.store(c.st, a.root, a.path, vb)
            c.I.store(c.st, b.root, b.path, va)
            return UNIT

        @regp(r'^core::num::<impl [iu](?:\d+|size)>::pow$')
        def ipow(c):
            a, e = c.args
            st = c.st
            la, ha = st.num.rng(a.form)
            le, he = st.num.rng(e.form)
            lo, hi = c.I.irange(a.ty)
            if la >= 0 and he <= 64:
                rl, rh = la ** le, ha ** he
                if ha >= 1 and la == 0:
                    rl = 0
                M.pcall(c.I, st, c.body, c.bbi, c.t, 'pow overflows', rh <= hi, f"base in [{la}, {ha}], exponent in [{le}, {he}]")
                if la == ha and le == he:
                    return c.I.cint(min(rl, hi), a.ty)
                return c.I.fresh_int(st, a.ty, 'pow', max(rl, lo), min(rh, hi))
            M.pcall(c.I, st, c.body, c.bbi, c.t, 'pow overflows', False, f"base in [{la}, {ha}], exponent in [{le}, {he}]")
            return c.I.fresh_int(st, a.ty, 'pow')

        @reg('core::slice::<impl [T]>::last')
        def slast(c):
            s = M.as_slice(c.I, c.st, c.args[0])
            out = []
            for s2 in c.I.assume(c.st.copy(), ('cmp', 'ge', s.len, Form.const(1)), True):
                e = M.iter_elem(c.I, s2, s, s.len.addc(-1))
                out.append((s2, M.some(c.dty, VRef(('val', e)))))
            for s2 in c.I.assume(c.st.copy(), ('cmp', 'eq', s.len, Form.const(0)), True):
                out.append((s2, M.none(c.dty)))
            return out

        @reg('core::slice::<impl [T]>::split_first', 'core::slice::<impl [T]>::split_last')
        def ssplit1(c):
            s = M.as_slice(c.I, c.st, c.args[0])
            first = c.c['decl'].endswith('split_first')
            out = []
            for s2 in c.I.assume(c.st.copy(), ('cmp', 'ge', s.len, Form.const(1)), True):
                if first:
                    e = M.iter_elem(c.I, s2, s, Form.const(0))
                    rest = VSlice(s.base, s.off.addc(1), s.len.addc(-1), s.elem, s.ety)
                else:
                    e = M.iter_elem(c.I, s2, s, s.len.addc(-1))
                    rest = VSlice(s.base, s.off, s.len.addc(-1), s.elem, s.ety)
                out.append((s2, M.some(c.dty, VTuple([VRef(('val', e)), rest]))))
            for s2 in c.I.assume(c.st.copy(), ('cmp', 'eq', s.len, Form.const(0)), True):
                out.append((s2, M.none(c.dty)))
            return out

        @reg('core::slice::<impl [T]>::split_at')
        def ssplit_at(c):
            s = M.as_slice(c.I, c.st, c.args[0])
            i = c.args[1]
            st = c.st
            ok = st.num.le0(i.form.sub(s.len))
            M.pcall(c.I, st, c.body, c.bbi, c.t, 'split_at: mid > len', ok, f"mid {i.form!r} in {list(st.num.rng(i.form))}, len {s.len!r} in {list(st.num.rng(s.len))}")
            outs = c.I.assume(st, ('cmp', 'le', i.form, s.len), True)
            return [(s2, VTuple([VSlice(s.base, s.off, i.form, s.elem, s.ety), VSlice(s.base, s.off.add(i.form), s.len.sub(i.form), s.elem, s.ety)])) for s2 in outs]

        @reg('core::slice::<impl [T]>::get')
        def sget(c):
            s = M.as_slice(c.I, c.st, c.args[0])
            i = c.args[1]
            out = []
            if isinstance(i, VAdt):
                nm = M.facts.types.get(i.ty, {}).get('def', '')
                a = b = None
                if nm.endswith('ops::RangeFrom'):
                    a, b = i.variants[0][0].form, s.len
                elif nm.endswith('ops::RangeTo'):
                    a, b = Form.const(0), i.variants[0][0].form
                elif nm.endswith('ops::Range'):
                    a, b = i.variants[0][0].form, i.variants[0][1].form
                if a is not None:
                    valid = ('and', ('cmp', 'le', a, b), ('cmp', 'le', b, s.len))
                    for s2 in c.I.assume(c.st.copy(), valid, True):
                        out.append((s2, M.some(c.dty, VSlice(s.base, s.off.add(a), b.sub(a), s.elem, s.ety))))
                    for s2 in c.I.assume(c.st.copy(), valid, False):
                        out.append((s2, M.none(c.dty)))
                    return out
            if not isinstance(i, VInt):
                return c.I.top(c.st, c.dty, 'get', assume_inv=False)
            for s2 in c.I.assume(c.st.copy(), ('cmp', 'lt', i.form, s.len), True):
                e = c.I.slice_elem(s2, s, i.form)
                out.append((s2, M.some(c.dty, VRef(('val', e)))))
            for s2 in c.I.assume(c.st.copy(), ('cmp', 'ge', i.form, s.len), True):
                out.append((s2, M.none(c.dty)))
            return out

        @reg('core::slice::<impl [T]>::starts_with', 'core::str::<impl str>::starts_with')
        def sstarts(c):
            s = M.as_slice(c.I, c.st, c.args[0])
            n = M.as_slice(c.I, c.st, c.args[1])
            out = []
            nb = M.const_bytes(n)
            if nb is not None:
                c.I.events.append(('cmplit', bytes(nb), True))
            if nb is not None and len(nb) <= 6 and s.elem[0] == 'bytes':
                # exact case split: too short | first differing position | all equal
                for s2 in c.I.assume(c.st.copy(), ('cmp', 'lt', s.len, n.len), True):
                    out.append((s2, VBool(False)))
                for s2 in c.I.assume(c.st.copy(), ('cmp', 'ge', s.len, n.len), True):
                    out.extend(M.bytewise_outcomes(c.I, s2, s, nb, exact=True))
                return out
            for s2 in c.I.assume(c.st.copy(), ('cmp', 'ge', s.len, n.len), True):
                try:
                    M.note_prefix(c.I, s2, s, n, exact=True)
                except Infeasible:
                    continue
                out.append((s2, VBool(True)))
            out.append((c.st.copy(), VBool(False)))
            return out

        @reg('core::slice::ascii::<impl [u8]>::eq_ignore_ascii_case')
        def seqic(c):
            a = M.as_slice(c.I, c.st, c.args[0])
            b = M.as_slice(c.I, c.st, c.args[1])
            return M.compare_with_const(c, a, b, exact=False)

        @reg('core::slice::<impl [T]>::binary_search')
        def bsearch(c):
            s = M.as_slice(c.I, c.st, c.args[0])
            needle = M.deref(c.I, c.st, c.args[1])
            out = []
            consts = None
            if s.elem[0] == 'vals' and s.off.is_const() and s.len.is_const():
                es = s.elem[1].elems[s.off.c:s.off.c + s.len.c]
                if all(isinstance(e, VInt) and e.form.is_const() for e in es):
                    consts = [e.form.c for e in es]
                    if consts != sorted(consts) or len(set(consts)) != len(consts):
                        consts = None
            if consts is not None and isinstance(needle, VInt):
                # exact model over a sorted constant table
                n = len(consts)
                for i, v in enumerate(consts):
                    for s2 in c.I.assume(c.st.copy(), ('cmp', 'eq', needle.form, Form.const(v)), True):
                        out.append((s2, VAdt(c.dty, {OK: (c.I.cint(i, 'usize'),)})))
                for i in range(n + 1):
                    p = None
                    if i > 0:
                        p = ('cmp', 'gt', needle.form, Form.const(consts[i - 1]))
                    if i < n:
                        q = ('cmp', 'lt', needle.form, Form.const(consts[i]))
                        p = q if p is None else ('and', p, q)
                    for s2 in c.I.assume(c.st.copy(), p, True):
                        out.append((s2, VAdt(c.dty, {ERR: (c.I.cint(i, 'usize'),)})))
                return out
            s2 = c.st.copy()
            i1 = c.I.fresh_int(s2, 'usize', 'bs_ok', 0)
            for s3 in c.I.assume(s2, ('cmp', 'lt', i1.form, s.len), True):
                out.append((s3, VAdt(c.dty, {OK: (i1,)})))
            s4 = c.st.copy()
            i2 = c.I.fresh_int(s4, 'usize', 'bs_err', 0)
            for s5 in c.I.assume(s4, ('cmp', 'le', i2.form, s.len), True):
                out.append((s5, VAdt(c.dty, {ERR: (i2,)})))
            return out

        @reg('std::ops::Index::index')
        def index(c):
            base = c.args[0]
            idx = c.args[1]
            s = M.as_slice(c.I, c.st, base)
            if s is None:
                raise AnalysisIncomplete(f"Index on {base!r}")
            it = M.facts.types.get(idx.ty, {}) if isinstance(idx, VAdt) else {}
            nm = it.get('def', '')
            st = c.st
            if (c.c.get('args') or [''])[0] == 'str' and isinstance(idx, VAdt):
                # slicing a str panics when a bound falls inside a multi-byte character
                ascii_only = s.elem[0] == 'cbytes' and all(b < 128 for b in s.elem[1]) or (s.elem[0] == 'bytes' and s.elem[2] < 128)
                for b in idx.variants.get(0, ()):
                    if not isinstance(b, VInt):
                        continue
                    lo_, hi_ = st.num.rng(b.form)
                    ok = ascii_only or (lo_ == hi_ == 0) or st.num.eq0(b.form.sub(s.len))
                    M.pcall(c.I, st, c.body, c.bbi, c.t, 'str slice bound on a char boundary', ok,
                            f"bound {b.form!r} in [{lo_}, {hi_}] of a str that may contain multi-byte characters")
            if isinstance(idx, VInt):
                ok = st.num.le0(idx.form.sub(s.len).addc(1)) and st.num.ge0(idx.form)
                M.pcall(c.I, st, c.body, c.bbi, c.t, 'slice index out of bounds', ok, f"index {idx.form!r} len {s.len!r}")
                return VRef(('val', c.I.slice_elem(st, s, idx.form)))
            if nm.endswith('ops::RangeFrom'):
                a = idx.variants[0][0]
                ok = st.num.le0(a.form.sub(s.len))
                M.pcall(c.I, st, c.body, c.bbi, c.t, 'slice start index out of range', ok,
                        f"start {a.form!r} in {list(st.num.rng(a.form))}, len {s.len!r} in {list(st.num.rng(s.len))}")
                outs = c.I.assume(st, ('cmp', 'le', a.form, s.len), True)
                return [(s2, VSlice(s.base, s.off.add(a.form), s.len.sub(a.form), s.elem, s.ety)) for s2 in outs]
            if nm.endswith('ops::RangeTo'):
                b = idx.variants[0][0]
                ok = st.num.le0(b.form.sub(s.len))
                M.pcall(c.I, st, c.body, c.bbi, c.t, 'slice end index out of range', ok,
                        f"end {b.form!r} in {list(st.num.rng(b.form))}, len {s.len!r} in {list(st.num.rng(s.len))}")
                outs = c.I.assume(st, ('cmp', 'le', b.form, s.len), True)
                elem = s.elem
                if len(b.form.terms) == 1 and b.form.c == 0 and b.form.terms[0][1] == 1:
                    dt = SYMTAB.syms[b.form.terms[0][0]].data
                    if dt and dt[0] == 'count' and dt[1] == s.base and dt[2] == s.off.key() and dt[3] is not None \
                            and elem[0] == 'bytes':
                        elem = ('bytes', max(elem[1], dt[3][0]), min(elem[2], dt[3][1]))
                return [(s2, VSlice(s.base, s.off, b.form, elem, s.ety)) for s2 in outs]
            if nm.endswith('ops::Range'):
                a, b = idx.variants[0]
                ok = st.num.le0(a.form.sub(b.form)) and st.num.le0(b.form.sub(s.len))
                M.pcall(c.I, st, c.body, c.bbi, c.t, 'slice range out of bounds', ok,
                        f"range {a.form!r}..{b.form!r}: {list(st.num.rng(a.form))}..{list(st.num.rng(b.form))}, len {s.len!r} in {list(st.num.rng(s.len))}")
                outs = c.I.assume(st, ('and', ('cmp', 'le', a.form, b.form), ('cmp', 'le', b.form, s.len)), True)
                return [(s2, VSlice(s.base, s.off.add(a.form), b.form.sub(a.form), s.elem, s.ety)) for s2 in outs]
            raise AnalysisIncomplete(f"Index with {idx!r}")

        # ---- iterators over slices
        @reg('core::slice::<impl [T]>::iter')
        def siter(c):
            s = M.as_slice(c.I, c.st, c.args[0])
            if s is None:
                raise AnalysisIncomplete(f"iter on {c.args[0]!r}")
            if s.elem[0] == 'vals' and s.len.is_const() and s.off.is_const() and s.len.c <= 8 and s.base[0] == 'cfields':
                return VOpaque(c.dty, 'iter', (s, 0))       # exact iteration over a concrete short sequence
            return VOpaque(c.dty, 'iter', (s,))

        @reg('std::iter::Iterator::take')
        def itake(c):
            it, n = c.args
            if isinstance(it, VOpaque) and it.tag == 'iter' and (len(it.data) == 1 or (isinstance(it.data[1], VInt) and it.data[1].form.is_const() and it.data[1].form.c == 0)):
                return VOpaque(c.dty, 'take', (it.data[0], n))
            seqs = M.to_seqs(c.I, c.st, it)
            if seqs is None or not isinstance(n, VInt):
                raise AnalysisIncomplete("take on non-slice iterator")
            out = []
            for (s2, (base, pos, end, ops)) in seqs:
                lim = pos.form.add(n.form)
                for s3 in c.I.assume(s2.copy(), ('cmp', 'le', lim, end.form), True):
                    out.append((s3, VOpaque(c.dty, 'seq', (base, pos, VInt(lim, 'usize'), ops))))
                for s3 in c.I.assume(s2.copy(), ('cmp', 'gt', lim, end.form), True):
                    out.append((s3, VOpaque(c.dty, 'seq', (base, pos, end, ops))))
            return out

        @reg('std::iter::Iterator::take_while')
        def itakewhile(c):
            it, f = c.args
            if isinstance(it, VOpaque) and it.tag in ('iter', 'take'):
                return VOpaque(c.dty, 'takewhile', (it, f))
            raise AnalysisIncomplete("take_while on unknown iterator")

        @reg('std::iter::Iterator::enumerate')
        def ienum(c):
            it = c.args[0]
            if isinstance(it, VOpaque) and it.tag == 'iter' and len(it.data) == 1:
                return VOpaque(c.dty, 'enumerate', (it.data[0],))
            seqs = M.to_seqs(c.I, c.st, it)
            if seqs is None:
                raise AnalysisIncomplete("enumerate on unknown iterator")
            return [(s2, VOpaque(c.dty, 'seq', (base, pos, end, ops + (('enumerate', pos),)))) for (s2, (base, pos, end, ops)) in seqs]

        @reg('std::iter::Iterator::map', 'std::iter::Iterator::copied', 'std::iter::Iterator::cloned', 'std::iter::Iterator::rev', 'std::iter::Iterator::skip')
        def iadapt(c):
            it = c.args[0]
            name = c.c['decl'].rsplit('::', 1)[1]
            seqs = M.to_seqs(c.I, c.st, it)
            if seqs is None:
                raise AnalysisIncomplete(f"{name} on unknown iterator {it!r}")
            out = []
            for (s2, (base, pos, end, ops)) in seqs:
                if name == 'map':
                    out.append((s2, VOpaque(c.dty, 'seq', (base, pos, end, ops + (('map', c.args[1]),)))))
                elif name in ('copied', 'cloned'):
                    out.append((s2, VOpaque(c.dty, 'seq', (base, pos, end, ops + (('copied',),)))))
                elif name == 'rev':
                    if ops or not (pos.form.is_const() and pos.form.c == 0):
                        raise AnalysisIncomplete('rev after other adaptors')
                    out.append((s2, VOpaque(c.dty, 'seq', (base, pos, end, (('rev',),)))))
                else:
                    n = c.args[1]
                    np = pos.form.add(n.form)
                    for s3 in c.I.assume(s2.copy(), ('cmp', 'le', np, end.form), True):
                        out.append((s3, VOpaque(c.dty, 'seq', (base, VInt(np, 'usize'), end, ops))))
                    for s3 in c.I.assume(s2.copy(), ('cmp', 'gt', np, end.form), True):
                        out.append((s3, VOpaque(c.dty, 'seq', (base, end, end, ops))))
            return out

        @reg('std::iter::Iterator::try_for_each')
        def itry_for_each(c):
            itref, f = c.args
            it = M.deref(c.I, c.st, itref)
            seqs = M.to_seqs(c.I, c.st, it)
            if seqs is None:
                raise AnalysisIncomplete(f"try_for_each on unknown iterator {it!r}")
            t = M.facts.types.get(c.dty, {})
            dn = t.get('def', '')
            if not (dn.endswith('result::Result') or dn.endswith('option::Option')):
                raise AnalysisIncomplete(f"try_for_each returning {c.dty}")
            is_res = dn.endswith('result::Result')
            cont = 0 if is_res else 1            # Ok / Some: go on
            out = []
            for (s2, seq) in seqs:
                done = []

                def step(s3, acc, item):
                    nxt = []
                    for (s4, r) in c.I.call_closure(s3, f, [item]):
                        if not isinstance(r, VAdt):
                            raise AnalysisIncomplete('try_for_each: closure result')
                        for vi, fs in r.variants.items():
                            s5 = s4 if len(r.variants) == 1 else s4.copy()
                            if vi == cont:
                                nxt.append((s5, acc))
                            else:
                                done.append((s5, VAdt(c.dty, {vi: fs})))
                    return nxt
                rem_lo, rem_hi = s2.num.rng(seq[2].form.sub(seq[1].form))
                if rem_hi > 12:
                    # unbounded count: no call at all, or the closure run on a generic item (its obligations are
                    # recorded, its early exits returned); the effects of repeated calls are not accumulated
                    out.append((s2.copy(), VAdt(c.dty, {cont: (UNIT,)})))
                    k = c.I.fresh_int(s2, 'usize', 'it_i', 0)
                    for s3 in c.I.assume(s2.copy(), ('and', ('cmp', 'ge', k.form, seq[1].form), ('cmp', 'lt', k.form, seq[2].form)), True):
                        for (s4, item) in M.seq_items(c.I, s3, seq, k.form):
                            for (s5, _) in step(s4, UNIT, item):
                                out.append((s5, VAdt(c.dty, {cont: (UNIT,)})))
                else:
                    for (s3, _) in M.seq_unroll(c.I, s2, seq, UNIT, step):
                        out.append((s3, VAdt(c.dty, {cont: (UNIT,)})))
                out.extend(done)
            return out

        @reg('std::iter::Iterator::sum', 'std::iter::Iterator::for_each')
        def isum(c):
            it = c.args[0]
            name = c.c['decl'].rsplit('::', 1)[1]
            seqs = M.to_seqs(c.I, c.st, it)
            if seqs is None:
                raise AnalysisIncomplete(f"{name} on unknown iterator {it!r}")
            out = []
            for (s2, seq) in seqs:
                if name == 'sum':
                    ity = c.dty

                    def step(s3, acc, item):
                        v = M.deref(c.I, s3, item) if isinstance(item, VRef) else item
                        if not isinstance(v, VInt):
                            raise AnalysisIncomplete('sum of non-integers')
                        f = acc.form.add(v.form)
                        lo, hi = c.I.irange(ity)
                        a, b = s3.num.rng(f)
                        M.pcall(c.I, s3, c.body, c.bbi, c.t, 'sum overflows', lo <= a and b <= hi, f"partial sum in [{a}, {b}]")
                        return [(s3, VInt(f, ity))]
                    out.extend(M.seq_unroll(c.I, s2, seq, c.I.cint(0, ity), step))
                else:
                    f = c.args[1]
                    out.extend((s3, UNIT) for (s3, _) in M.seq_unroll(c.I, s2, seq, UNIT, lambda s3, acc, item: [(s4, UNIT) for (s4, _) in c.I.call_closure(s3, f, [item])]))
            return out

        @reg('std::iter::Iterator::count')
        def icount(c):
            it = c.args[0]
            if isinstance(it, VOpaque) and it.tag == 'takewhile':
                inner, f = it.data
                if inner.tag == 'iter':
                    sl, cap = inner.data[0], None
                else:
                    sl, cap = inner.data
                st = c.st
                if cap is None and sl.elem[0] == 'vals' and sl.len.is_const() and sl.off.is_const() and sl.len.c <= 16:
                    # a short constant table: evaluate the predicate on each entry in turn (exact)
                    depth = M.closure_arg_depth(c.I, st, f)
                    out = []
                    cur = [st]
                    for i in range(sl.len.c):
                        nxt = []
                        for s2 in cur:
                            arg = c.I.slice_elem(s2, sl, Form.const(i))
                            for _ in range(depth):
                                arg = VRef(('val', arg))
                            for (s3, r) in c.I.call_closure(s2, f, [arg]):
                                if not isinstance(r, VBool):
                                    raise AnalysisIncomplete('take_while predicate does not return a bool')
                                if r.val is True:
                                    nxt.append(s3)
                                elif r.val is False:
                                    out.append((s3, c.I.cint(i, 'usize')))
                                else:
                                    p = c.I.bool_pred(r)
                                    if p is None:
                                        nxt.append(s3.copy())
                                        out.append((s3, c.I.cint(i, 'usize')))
                                    else:
                                        nxt.extend(c.I.assume(s3.copy(), p, True))
                                        out.extend((s4, c.I.cint(i, 'usize')) for s4 in c.I.assume(s3.copy(), p, False))
                        cur = nxt
                    out.extend((s2, c.I.cint(sl.len.c, 'usize')) for s2 in cur)
                    return out
                n = c.I.fresh_int(st, 'usize', 'count', 0)
                outs = c.I.assume(st, ('cmp', 'le', n.form, sl.len), True)
                if cap is not None and isinstance(cap, VInt):
                    o2 = []
                    for s2 in outs:
                        o2.extend(c.I.assume(s2, ('cmp', 'le', n.form, cap.form), True))
                    outs = o2
                # element class of the counted prefix: the predicate held for all of them
                M.last_class_set = None
                cls = M.closure_byte_class(c.I, st, f)
                sym = n.form.terms[0][0]
                capv = None
                if cap is not None and isinstance(cap, VInt):
                    cl_, ch_ = st.num.rng(cap.form)
                    capv = cl_ if cl_ == ch_ else None
                SYMTAB.syms[sym].data = ('count', sl.base, sl.off.key(), cls, M.last_class_set, capv)
                return [(s2, n) for s2 in outs]
            seqs = M.to_seqs(c.I, c.st, it)
            if seqs is None:
                raise AnalysisIncomplete("count on unknown iterator")
            return [(s2, VInt(end.form.sub(pos.form), 'usize')) for (s2, (base, pos, end, ops)) in seqs]

        @reg('std::iter::Iterator::any', 'std::iter::Iterator::all', 'std::iter::Iterator::position')
        def anyall(c):
            itref, f = c.args
            it = M.deref(c.I, c.st, itref)
            seqs = M.to_seqs(c.I, c.st, it)
            if seqs is None:
                raise AnalysisIncomplete(f"any/all/position on {it!r}")
            name = c.c['decl'].rsplit('::', 1)[1]
            st = c.st
            # a short sequence of known length: evaluate the predicate item by item, in order (exact, keeps the
            # correlation between the position found and what the predicate established about that item)
            if all(sq[1].form.is_const() and sq[2].form.is_const() and sq[2].form.c - sq[1].form.c <= 16 for _, sq in seqs):
                out = []
                for (s2, seq) in seqs:
                    p0, p1 = seq[1].form.c, seq[2].form.c
                    cur = [s2]
                    for i in range(p0, p1):
                        nxt = []
                        for s3 in cur:
                            for (s4, item) in M.seq_items(c.I, s3, seq, Form.const(i)):
                                for (s5, r) in c.I.call_closure(s4, f, [item]):
                                    if not isinstance(r, VBool):
                                        raise AnalysisIncomplete('predicate does not return a bool')
                                    if r.val is None:
                                        p = c.I.bool_pred(r)
                                        ts = c.I.assume(s5.copy(), p, True) if p is not None else [s5.copy()]
                                        fs = c.I.assume(s5.copy(), p, False) if p is not None else [s5]
                                    else:
                                        ts, fs = ([s5], []) if r.val else ([], [s5])
                                    rel = c.I.cint(i - p0, 'usize')
                                    if name == 'position':
                                        out.extend((t, M.some(c.dty, rel)) for t in ts)
                                        nxt.extend(fs)
                                    elif name == 'any':
                                        out.extend((t, VBool(True)) for t in ts)
                                        nxt.extend(fs)
                                    else:
                                        out.extend((t, VBool(False)) for t in fs)
                                        nxt.extend(ts)
                        if len(nxt) > 6:
                            # the states that go on to the next item differ only in what they learnt about this one
                            nxt = [s_ for (s_, _) in c.I.merge_exits([(s_, UNIT) for s_ in nxt])]
                        cur = nxt
                    for s3 in cur:
                        out.append((s3, M.none(c.dty) if name == 'position' else VBool(name == 'all')))
                return out
            hit, miss = [], []          # (state, index) in which the predicate holds / fails for the item at that index
            cands = []
            for (s2, seq) in seqs:
                idx = c.I.fresh_int(s2, 'usize', 'it_i', 0)
                for s3 in c.I.assume(s2.copy(), ('and', ('cmp', 'ge', idx.form, seq[1].form), ('cmp', 'lt', idx.form, seq[2].form)), True):
                    for (s4, item) in M.seq_items(c.I, s3, seq, idx.form):
                        cands.append((s4, item, VInt(idx.form.sub(seq[1].form), 'usize')))
            for (s3, arg, rel) in cands:
                for (s4, r) in c.I.call_closure(s3, f, [arg]):
                    if not isinstance(r, VBool):
                        raise AnalysisIncomplete('predicate does not return a bool')
                    if r.val is True:
                        hit.append((s4, rel))
                    elif r.val is False:
                        miss.append((s4, rel))
                    else:
                        p = c.I.bool_pred(r)
                        if p is None:
                            hit.append((s4.copy(), rel))
                            miss.append((s4, rel))
                        else:
                            hit.extend((s5, rel) for s5 in c.I.assume(s4.copy(), p, True))
                            miss.extend((s5, rel) for s5 in c.I.assume(s4.copy(), p, False))
            out = []
            if name == 'position':
                out.append((st.copy(), M.none(c.dty)))                   # no item satisfies it (or there is none)
                out.extend((s4, M.some(c.dty, rel)) for (s4, rel) in hit)
            elif name == 'any':
                out.append((st.copy(), VBool(False)))
                out.extend((s4, VBool(True)) for (s4, _) in hit)
            else:
                out.append((st.copy(), VBool(True)))
                out.extend((s4, VBool(False)) for (s4, _) in miss)
            return out

        @reg('std::iter::Iterator::fold')
        def ifold(c):
            it, init, f = c.args
            if isinstance(it, VOpaque) and it.tag == 'iter':
                sl = it.data[0]
                st = c.st
                lo, hi = st.num.rng(sl.len)
                if hi > 12:
                    raise AnalysisIncomplete(f"fold over slice of unbounded length {hi}")
                out = []
                # bounded unrolling: length k for every feasible k
                for k in range(max(lo, 0), hi + 1):
                    for sk in c.I.assume(st.copy(), ('cmp', 'eq', sl.len, Form.const(k)), True):
                        cur = [(sk, init)]
                        for i in range(k):
                            nxt = []
                            for (s2, acc) in cur:
                                e = c.I.slice_elem(s2, sl, Form.const(i))
                                nxt.extend(c.I.call_closure(s2, f, [acc, VRef(('val', e))]))
                            cur = nxt
                        out.extend(cur)
                return out
            seqs = M.to_seqs(c.I, c.st, it)
            if seqs is None:
                raise AnalysisIncomplete("fold on unknown iterator")
            out = []
            for (s2, seq) in seqs:
                out.extend(M.seq_unroll(c.I, s2, seq, init, lambda s3, acc, item: c.I.call_closure(s3, f, [acc, item])))
            return out

        @reg('std::iter::Iterator::next')
        def inext(c):
            itref = c.args[0]
            it = M.deref(c.I, c.st, itref)
            st = c.st
            if isinstance(it, VOpaque) and it.tag == 'iter' and len(it.data) == 2 and isinstance(it.data[1], int):
                sl, pos = it.data
                if pos >= sl.len.c:
                    return M.none(c.dty)
                e = sl.elem[1].elems[sl.off.c + pos]
                if isinstance(itref, VRef):
                    c.I.store(st, itref.root, itref.path, VOpaque(it.ty, 'iter', (sl, pos + 1)))
                return M.some(c.dty, VRef(('val', e)))
            if isinstance(it, VOpaque) and it.tag == 'iter' and len(it.data) == 2 and isinstance(it.data[1], VInt) and isinstance(itref, VRef):
                sl, pos = it.data
                out = []
                for s2 in c.I.assume(st.copy(), ('cmp', 'ge', pos.form, sl.len), True):
                    out.append((s2, M.none(c.dty)))
                for s3 in c.I.assume(st.copy(), ('cmp', 'lt', pos.form, sl.len), True):
                    e = M.iter_elem(c.I, s3, sl, pos.form)
                    c.I.store(s3, itref.root, itref.path, VOpaque(it.ty, 'iter', (sl, VInt(pos.form.addc(1), 'usize'))))
                    out.append((s3, M.some(c.dty, VRef(('val', e)))))
                return out
            if isinstance(it, VOpaque) and it.tag == 'iter':
                sl = it.data[0]
                out = [(st.copy(), M.none(c.dty))]
                s2 = st.copy()
                # some element of the slice
                idx = c.I.fresh_int(s2, 'usize', 'it_i', 0)
                for s3 in c.I.assume(s2, ('cmp', 'lt', idx.form, sl.len), True):
                    e = M.iter_elem(c.I, s3, sl, idx.form)
                    out.append((s3, M.some(c.dty, VRef(('val', e)))))
                return out
            if isinstance(it, VOpaque) and it.tag == 'enumerate':
                sl = it.data[0]
                out = [(st.copy(), M.none(c.dty))]
                s2 = st.copy()
                idx = c.I.fresh_int(s2, 'usize', 'en_i', 0)
                for s3 in c.I.assume(s2, ('cmp', 'lt', idx.form, sl.len), True):
                    lo, hi = s3.num.rng(idx.form)
                    if hi - lo <= 16 and sl.elem[0] == 'vals':
                        for k in range(lo, hi + 1):
                            for s4 in c.I.assume(s3.copy(), ('cmp', 'eq', idx.form, Form.const(k)), True):
                                e = c.I.slice_elem(s4, sl, Form.const(k))
                                out.append((s4, M.some(c.dty, VTuple([c.I.cint(k, 'usize'), VRef(('val', e))]))))
                    else:
                        e = M.iter_elem(c.I, s3, sl, idx.form)
                        out.append((s3, M.some(c.dty, VTuple([idx, VRef(('val', e))]))))
                return out
            if isinstance(it, VOpaque) and it.tag == 'range' and it.data[0].form.is_const() and it.data[1].form.is_const() \
                    and it.data[1].form.c - it.data[0].form.c <= 8 and isinstance(itref, VRef):
                s_, e_ = it.data
                if s_.form.c >= e_.form.c:
                    return M.none(c.dty)
                c.I.store(st, itref.root, itref.path, VOpaque(it.ty, 'range', (VInt(s_.form.addc(1), s_.ty), e_)))
                return M.some(c.dty, s_)
            if isinstance(it, VOpaque) and it.tag == 'range':
                s_, e_ = it.data
                out = [(st.copy(), M.none(c.dty))]
                s2 = st.copy()
                v = c.I.fresh_int(s2, s_.ty, 'rng_i')
                for s3 in c.I.assume(s2, ('and', ('cmp', 'ge', v.form, s_.form), ('cmp', 'lt', v.form, e_.form)), True):
                    out.append((s3, M.some(c.dty, v)))
                return out
            if isinstance(it, VOpaque) and it.tag == 'seq' and isinstance(itref, VRef):
                base, pos, end, ops = it.data
                out = []
                for s2 in c.I.assume(st.copy(), ('cmp', 'ge', pos.form, end.form), True):
                    out.append((s2, M.none(c.dty)))
                for s3 in c.I.assume(st.copy(), ('cmp', 'lt', pos.form, end.form), True):
                    for (s4, item) in M.seq_items(c.I, s3, it.data, pos.form):
                        c.I.store(s4, itref.root, itref.path, VOpaque(it.ty, 'seq', (base, VInt(pos.form.addc(1), 'usize'), end, ops)))
                        out.append((s4, M.some(c.dty, item)))
                return out
            if isinstance(it, VOpaque) and it.tag in ('take', 'enumerate', 'range', 'iter') and isinstance(itref, VRef):
                # any other iterator value the generic sequences can express: convert in place, then step
                seqs = M.to_seqs(c.I, st, it)
                if seqs is not None:
                    out = []
                    for (s2, seq) in seqs:
                        base, pos, end, ops = seq
                        for s3 in c.I.assume(s2.copy(), ('cmp', 'ge', pos.form, end.form), True):
                            c.I.store(s3, itref.root, itref.path, VOpaque(it.ty, 'seq', seq))
                            out.append((s3, M.none(c.dty)))
                        for s3 in c.I.assume(s2.copy(), ('cmp', 'lt', pos.form, end.form), True):
                            for (s4, item) in M.seq_items(c.I, s3, seq, pos.form):
                                c.I.store(s4, itref.root, itref.path, VOpaque(it.ty, 'seq', (base, VInt(pos.form.addc(1), 'usize'), end, ops)))
                                out.append((s4, M.some(c.dty, item)))
                    return out
            raise AnalysisIncomplete(f"next on {it!r}")

        # ---- ranges
        @reg('std::ops::RangeInclusive::<Idx>::new')
        def ri_new(c):
            return VOpaque(c.dty, 'rangeincl', (c.args[0], c.args[1]))

        @reg('std::ops::RangeInclusive::<Idx>::contains')
        def ri_contains(c):
            r = M.deref(c.I, c.st, c.args[0])
            x = M.deref(c.I, c.st, c.args[1])
            if isinstance(r, VAdt):
                # struct RangeInclusive { start, end, exhausted }
                a, b = r.variants[0][0], r.variants[0][1]
            elif isinstance(r, VOpaque) and r.tag == 'rangeincl':
                a, b = r.data
            else:
                return c.I.unknown_bool()
            return c.I.mkbool(c.st, ('and', ('cmp', 'ge', x.form, a.form), ('cmp', 'le', x.form, b.form)))

        # ---- writers, formatting machinery, strings: total, no panic (see DESIGN Appendix B)
        @reg('std::fmt::Write::write_str', 'std::fmt::Write::write_char', 'std::fmt::Write::write_fmt',
             "std::fmt::Formatter::<'a>::write_fmt")
        def wr(c):
            kind = c.c['decl'].split('::')[-1]
            if not any(k.startswith('format::write_u32') for _, k in c.st.stack):
                a = c.args[1] if len(c.args) > 1 else None
                if kind == 'write_char' and isinstance(a, VInt):
                    lo, hi = c.st.num.rng(a.form)
                    d = ('char', lo if lo == hi else None)
                elif kind == 'write_str' and isinstance(a, VSlice):
                    b = a.base
                    if isinstance(b, tuple) and b and b[0] == 'tbl':
                        d = ('tbl', b[1], Form(b[2][0], b[2][1]))
                    elif isinstance(b, tuple) and b and b[0] == 'cstr':
                        d = ('cstr', b[1])
                    else:
                        d = ('str', None)
                else:
                    d = (kind, None)
                c.st.notes['writes'] = c.st.notes.get('writes', ()) + (d,)
            return c.I.top(c.st, c.dty, 'wr', assume_inv=False)

        @reg("core::fmt::rt::Argument::<'_>::new_display", "std::fmt::Arguments::<'a>::new",
             "std::fmt::Arguments::<'a>::from_str", 'std::string::String::new', 'stack_buf::StackStr::<N>::new',
             'once_cell::sync::Lazy::<T, F>::new')
        def opaque_ctor(c):
            return VOpaque(c.dty, c.c['decl'].split('::')[-2] if '::' in c.c['decl'] else None)

        @reg('std::string::String::push_str')
        def push_str(c):
            return UNIT

        @reg('std::string::String::try_reserve')
        def try_reserve(c):
            return c.I.top(c.st, c.dty, 'try_reserve', assume_inv=False)

        # ---- StackVec<Field, 36>
        @reg('stack_buf::StackVec::<T, N>::new')
        def sv_new(c):
            return VOpaque(c.dty, 'stackvec', Form.const(0))

        @reg('stack_buf::StackVec::<T, N>::is_full')
        def sv_full(c):
            v = M.deref(c.I, c.st, c.args[0])
            cap = int(c.c['args'][1])
            return c.I.mkbool(c.st, ('cmp', 'ge', v.data, Form.const(cap)))

        @reg('stack_buf::StackVec::<T, N>::push')
        def sv_push(c):
            ref = c.args[0]
            v = M.deref(c.I, c.st, ref)
            cap = int(c.c['args'][1])
            ok = c.st.num.le0(v.data.addc(1 - cap))
            M.pcall(c.I, c.st, c.body, c.bbi, c.t, 'StackVec::push when full', ok, f"len {v.data!r} in {list(c.st.num.rng(v.data))}")
            if c.c['args'][0] == 'format::Field':
                M.check_field_inv(c.I, c.st, c.args[1], c.body, c.bbi, c.t)
            outs = c.I.assume(c.st, ('cmp', 'lt', v.data, Form.const(cap)), True)
            res = []
            for s2 in outs:
                c.I.store(s2, ref.root, ref.path, VOpaque(v.ty, 'stackvec', v.data.addc(1)))
                res.append((s2, UNIT))
            return res

        @reg('std::ops::Deref::deref')
        def deref(c):
            a = M.deref(c.I, c.st, c.args[0])
            d = c.c.get('def', '')
            if 'StackVec' in d:
                if isinstance(a, VOpaque) and a.tag == 'stackvec_c':
                    arr = VArray(list(a.data), 'format::Field')
                    return VSlice(('cfields', id(a)), Form.const(0), Form.const(len(a.data)), ('vals', arr), 'format::Field')
                if isinstance(a, VOpaque) and a.tag == 'stackvec':
                    ety = c.c['args'][0]
                    m = re.match(r'stack_buf::StackVec<(.*), (\d+)>$', ety)
                    el = m.group(1) if m else 'format::Field'
                    return VSlice(('sv', c.st.new_id()), Form.const(0), a.data, ('inv', el), el)
                raise AnalysisIncomplete(f"deref of {a!r}")
            if 'Lazy' in d:
                if isinstance(a, VOpaque) and a.tag == 'lazy_formatter':
                    oid = c.st.new_id()
                    fty = c.c['args'][0]
                    m = re.match(r'once_cell::sync::Lazy<(.*)>$', fty)
                    c.st.objs[oid] = c.I.top(c.st, m.group(1) if m else 'format::Formatter', 'lazyfmt')
                    c.I.events.append(('lazy', a.data))
                    return VRef(('obj', oid))
                raise AnalysisIncomplete(f"Lazy deref of {a!r}")
            if 'StackStr' in d:
                ln = c.I.fresh_int(c.st, 'usize', 'sslen', 0, 32)
                return VSlice(('ss', c.st.new_id()), Form.const(0), ln.form, ('bytes', 0, 255), 'u8')
            raise AnalysisIncomplete(f"Deref::deref for {d}")

        # ---- chrono (source of CLOCK taint)
        CLOCK = frozenset(('CLOCK',))

        @reg('chrono::Local::now')
        def now(c):
            c.st.note_add('clock_reads')
            c.I.events.append(('clock', c.body['def'], [k for _, k in c.st.stack]))
            return VOpaque(c.dty, 'chrono', None, CLOCK)

        @reg('chrono::DateTime::<Tz>::naive_local')
        def naive_local(c):
            a = c.args[0]
            a = M.deref(c.I, c.st, a)
            return VOpaque(c.dty, 'chrono', 'naive_local', getattr(a, 'taint', frozenset()))

        def chrono_field(name, lo, hi, ty):
            def h(c):
                a = M.deref(c.I, c.st, c.args[0])
                taint = getattr(a, 'taint', frozenset())
                v = c.I.fresh_int(c.st, ty, f"now.{name}", lo, hi, taint=taint)
                SYMTAB.syms[v.form.terms[0][0]].data = ('chrono', name, getattr(a, 'data', None))
                return v
            return h
        T['chrono::Datelike::year'] = chrono_field('year', -262144, 262143, 'i32')
        T['chrono::Datelike::month'] = chrono_field('month', 1, 12, 'u32')
        T['chrono::Datelike::day'] = chrono_field('day', 1, 31, 'u32')
        T['chrono::Timelike::hour'] = chrono_field('hour', 0, 23, 'u32')
        T['chrono::Timelike::minute'] = chrono_field('minute', 0, 59, 'u32')
        T['chrono::Timelike::second'] = chrono_field('second', 0, 59, 'u32')
        T['chrono::NaiveDateTime::timestamp_subsec_micros'] = chrono_field('micros', 0, 1_999_999, 'u32')

        # ---- panics
        @reg('core::panicking::panic', 'core::panicking::panic_fmt', 'core::panicking::panic_bounds_check',
             'core::panicking::unreachable_display', 'core::panicking::panic_explicit')
        def panic(c):
            # debug_assert!/unreachable! expansions: reaching the call is the violation
            M.pcall(c.I, c.st, c.body, c.bbi, c.t, 'explicit panic reachable', False, 'call to core::panicking is reachable')
            return []

        # ---- serde (foreign generic code; results unconstrained)
        @regp(r'^serde::(Serializer|Deserializer)::')
        def serde_any(c):
            c.I.events.append(('serde', c.c['decl'], list(c.args), c.c.get('args')))
            return c.I.top(c.st, c.dty, 'serde', assume_inv=False)

    # ------------------------------------------------------------------ misc helpers used by models
    def arg_loc(self, c, i):
        o = c.t['args'][i]
        if o['o'] in ('copy', 'move'):
            try:
                return c.I.resolve(c.st, c.fid, o['p'])
            except AnalysisIncomplete:
                return None
        return None

    def opt_test(self, c, want_some):
        o = self.deref(c.I, c.st, c.args[0])
        if isinstance(o, VAdt):
            has_some = SOME in o.variants
            has_none = NONE in o.variants
            if has_some and not has_none:
                return VBool(want_some)
            if has_none and not has_some:
                return VBool(not want_some)
            # fork so that the tested place is narrowed on each side
            loc = None
            a0 = c.args[0]
            if isinstance(a0, VRef):
                loc = (a0.root, a0.path)
            out = []
            for vi in (SOME, NONE):
                s2 = c.st.copy()
                if loc is not None:
                    try:
                        c.I.store(s2, loc[0], loc[1], VAdt(o.ty, {vi: o.variants[vi]}))
                    except AnalysisIncomplete:
                        pass
                out.append((s2, VBool((vi == SOME) == want_some)))
            return out
        return c.I.unknown_bool()

    def iter_elem(self, I, st, sl, idx):
        e = sl.elem
        if e[0] == 'inv':
            return I.top(st, e[1], 'elem', assume_inv=True)
        if e[0] == 'one':
            return e[1]
        return I.slice_elem(st, sl, idx)

    def pin_byte(self, I, st, sl, i, values):
        """constrain byte i of a byte slice to a set of values (interval hull + exclusions)"""
        if sl.elem[0] != 'bytes':
            return
        e = I.slice_elem(st, sl, Form.const(i))
        if not isinstance(e, VInt) or len(e.form.terms) != 1:
            return
        sym = e.form.terms[0][0]
        vs = sorted(set(values))
        st.num.set_lo(sym, vs[0])
        st.num.set_hi(sym, vs[-1])
        for x in range(vs[0] + 1, vs[-1]):
            if x not in vs:
                st.num.exclude(sym, x)

    def alts_of(self, b, exact):
        alts = {b}
        if not exact:
            if 65 <= b <= 90:
                alts.add(b + 32)
            elif 97 <= b <= 122:
                alts.add(b - 32)
        return alts

    def bytewise_outcomes(self, I, st, s, nb, exact):
        """exact partition of `s[..len(nb)] equals nb` (optionally ignoring ASCII case): one False outcome per first
        differing position, one True outcome with every byte pinned"""
        out = []
        for i in range(len(nb)):
            s2 = st.copy()
            try:
                for j in range(i):
                    self.pin_byte(I, s2, s, j, self.alts_of(nb[j], exact))
                e = I.slice_elem(s2, s, Form.const(j + 1 if False else i))
                sym = e.form.terms[0][0]
                for v in self.alts_of(nb[i], exact):
                    s2.num.exclude(sym, v)
                out.append((s2, VBool(False)))
            except Infeasible:
                pass
        s3 = st.copy()
        try:
            for j in range(len(nb)):
                self.pin_byte(I, s3, s, j, self.alts_of(nb[j], exact))
            out.append((s3, VBool(True)))
        except Infeasible:
            pass
        return out

    def compare_with_const(self, c, a, b, exact):
        """a == b for byte slices where one side is constant text"""
        out = []
        cb, other = self.const_bytes(b), a
        if cb is None:
            cb, other = self.const_bytes(a), b
        if cb is not None:
            c.I.events.append(('cmplit', bytes(cb), exact))
        if cb is not None and len(cb) <= 6 and other is not None and other.elem[0] == 'bytes':
            for s2 in c.I.assume(c.st.copy(), ('cmp', 'ne', a.len, b.len), True):
                out.append((s2, VBool(False)))
            for s2 in c.I.assume(c.st.copy(), ('cmp', 'eq', a.len, b.len), True):
                out.extend(self.bytewise_outcomes(c.I, s2, other, cb, exact))
            return out
        for s2 in c.I.assume(c.st.copy(), ('cmp', 'eq', a.len, b.len), True):
            out.append((s2, VBool(True)))
        out.append((c.st.copy(), VBool(False)))
        return out

    def const_bytes(self, sl):
        if sl is not None and sl.elem[0] == 'cbytes' and sl.off.is_const() and sl.len.is_const():
            return sl.elem[1][sl.off.c:sl.off.c + sl.len.c]
        return None

    def note_prefix(self, I, st, s, n, exact):
        """s starts with n (exactly, or ignoring ASCII case): pin the bytes of s when n is constant text"""
        nb = self.const_bytes(n)
        if nb is None or len(nb) > 8:
            return
        for i, b in enumerate(nb):
            alts = {b}
            if not exact:
                if 65 <= b <= 90:
                    alts.add(b + 32)
                elif 97 <= b <= 122:
                    alts.add(b - 32)
            self.pin_byte(I, st, s, i, alts)

    def closure_arg_depth(self, I, st, f):
        """number of reference layers of the (single) argument of closure value f"""
        cl = f
        if isinstance(cl, VRef):
            cl = I.load(st, cl.root, cl.path)
        if not isinstance(cl, VClosure):
            raise AnalysisIncomplete('predicate is not a closure')
        body = self.facts.bodies.get(cl.key)
        if body is None or body['argc'] < 2:
            raise AnalysisIncomplete('predicate closure body missing')
        aty = body['locals'][2]['ty']
        depth = 0
        while aty.startswith('&'):
            depth += 1
            aty = aty[1:].lstrip()
            if aty.startswith("'"):
                aty = aty.split(' ', 1)[1] if ' ' in aty else aty
        return depth

    def closure_byte_class(self, I, st, f):
        """(lo, hi) hull of the bytes for which the predicate closure can return true, or None"""
        cl = f
        if isinstance(cl, VRef):
            cl = I.load(st, cl.root, cl.path)
        if not isinstance(cl, VClosure):
            return None
        body = self.facts.bodies.get(cl.key)
        if body is None or body['argc'] < 2:
            return None
        aty = body['locals'][2]['ty']
        depth = 0
        while aty.startswith('&'):
            depth += 1
            aty = aty[1:].lstrip()
            if aty.startswith("'"):
                aty = aty.split(' ', 1)[1] if ' ' in aty else aty
        if aty != 'u8':
            return None
        s0 = st.copy()
        b = I.fresh_int(s0, 'u8', 'pred_byte')
        arg = b
        for _ in range(depth):
            arg = VRef(('val', arg))
        try:
            outs = I.call_closure(s0, f, [arg])
        except AnalysisIncomplete:
            return None
        lo, hi = 255, 0
        exact = set()
        for (s2, r) in outs:
            if not isinstance(r, VBool):
                return None
            if r.val is False:
                continue
            cands = [s2]
            if r.val is None:
                p = I.bool_pred(r)
                cands = I.assume(s2, p, True) if p else [s2]
            for s3 in cands:
                a, c = s3.num.rng(b.form)
                lo, hi = min(lo, a), max(hi, c)
                if exact is not None and c - a <= 16:
                    ex = s3.num.neq.get(b.form.terms[0][0], frozenset())
                    exact |= {x for x in range(a, c + 1) if x not in ex}
                else:
                    exact = None
        if lo > hi:
            return (0, 0)
        self.last_class_set = frozenset(exact) if exact is not None else None
        return (max(lo, 0), min(hi, 255))


class Ctx:
    __slots__ = ('I', 'st', 'c', 'args', 't', 'body', 'bbi', 'fid', 'dty')

    def __init__(self, I, st, c, args, t, body, bbi, fid, dty):
        self.I = I
        self.st = st
        self.c = c
        self.args = args
        self.t = t
        self.body = body
        self.bbi = bbi
        self.fid = fid
        self.dty = dty
