"""Stage E1k: a picture that is one run of n blanks compiles, for every n >= 1 (C19; the blank run is rendered by C04).

The statement lets a picture have at most 36 tokens and counts a run of blanks as ONE token of any length, so the byte
length of a picture is unbounded.  E1's `try_new` contract bounds the token count of accepted pictures and requires that
a 36-token picture be accepted; it does not notice a length-based shortcut (C19-m8 of round 5: "no token is longer than
MONTH, so a picture of more than 36*5 bytes cannot fit").  This stage runs `Formatter::try_new::<&str>` on a picture
whose bytes are all blanks and whose length n is symbolic in [1, 2^31], and demands that the `Ok` exits cover every n:
the interval of n in an exit state over-approximates the lengths that can reach that exit, so a length outside the union
of the Ok exits' intervals is rejected by every concrete run - a VIOLATION naming the uncovered lengths.  (Covering is a
necessary condition, not a proof of acceptance.)  If the root cannot be driven the clause is an "undecided" note.

Not in pipeline.E1_SOURCES: own cache file.
"""
from __future__ import annotations

import json
import sys

from .facts import AnalysisIncomplete, Facts
from .lin import Form
from .values import VAdt, VSlice

KEY = 'format::Formatter::try_new::<&str>'
HI = 1 << 31


def run(facts_path):
    try:
        return _run(facts_path)
    except AnalysisIncomplete:
        raise
    except Exception as e:
        return {'records': [], 'notes': [f"{KEY}: the stage could not drive the function ({type(e).__name__}: {str(e)[:160]}); undecided"], 'exits': 0}


def _run(facts_path):
    from .interp import Interp, State
    from .models import Models
    from .spec import Spec
    f = Facts(facts_path)
    I = Interp(f, Spec(f), Models(f))
    out = {'records': [], 'notes': [], 'exits': 0}
    if KEY not in f.bodies:
        out['notes'].append(f"{KEY}: no such instance; undecided")
        return out
    st = State()
    ln = I.fresh_int(st, 'usize', 'len', 1, HI)
    sl = VSlice(('obj', st.new_id()), Form.const(0), ln.form, ('bytes', 32, 32), 'u8')
    try:
        res = I.call_local(st, KEY, [sl])
    except AnalysisIncomplete as e:
        out['notes'].append(f"{KEY}: not analysable on an all-blank picture ({str(e)[:160]}); undecided")
        return out
    ivs = []
    for s2, v in res:
        out['exits'] += 1
        if isinstance(v, VAdt) and 0 in v.variants:
            ivs.append(s2.num.rng(ln.form))
    ivs.sort()
    gaps, nxt = [], 1
    for a, b in ivs:
        if a > nxt:
            gaps.append((nxt, a - 1))
        nxt = max(nxt, b + 1)
    if nxt <= HI:
        gaps.append((nxt, HI))
    out['records'].append({'prop': 'C19', 'clause': 'try_new: a picture of n blanks (one token) is accepted for every n >= 1', 'ok': not gaps,
                           'detail': '' if not gaps else 'no accepting path for a run of ' + ', '.join(f"{a}..{b if b < HI else ''}" for a, b in gaps) + ' blanks'})
    return out


def main():
    out = run(sys.argv[1])
    with open(sys.argv[2], 'w') as fh:
        json.dump(out, fh, indent=1, default=str)
    print(f"lexaccept: exits {out['exits']} records {out['records']} notes {out['notes']}")


if __name__ == '__main__':
    main()
