"""Stage E1i: the exact 12-hour -> 24-hour map of the parser (C05; shared by C06).

E1's picture rules bound the hour that reaches the assembly (AM: 0..=11, PM: 12..=23) but do not tell `11 PM -> 23`
from `11 PM -> 22` (DESIGN 11.7).  `NaiveDateTime::adjust_hour12(&mut self)` is the one place where the parser applies
the meridian; this stage runs it with the record's `hour` symbolic in 1..=12 and `ampm` = Some(Am) / Some(Pm) / None,
and on every exit pins the hour to each of its possible values h in turn (an `assume h == v` on a copy of the exit
state): the stored hour must then be the single value

      Am: v mod 12          Pm: v mod 12 + 12          no meridian: v

However the function is written (nested ifs, `% 12`, a table) the rule only looks at the resulting hour field.  If the
function does not exist under that name the clause is reported as undecided in the notes.

Not in pipeline.E1_SOURCES: own cache file.
"""
from __future__ import annotations

import json
import sys

from .facts import AnalysisIncomplete, Facts
from .lin import Form
from .values import VAdt, VInt, VRef

KEY = 'format::NaiveDateTime::adjust_hour12'


def run(facts_path):
    try:
        return _run(facts_path)
    except AnalysisIncomplete:
        raise
    except Exception as e:          # the helper has another shape than this driver expects: nothing is decided, nothing is claimed
        return {'records': [], 'notes': [f"{KEY}: the stage could not drive the function ({type(e).__name__}: {str(e)[:160]}); undecided"], 'cases': 0}


def _run(facts_path):
    from .interp import Interp, State
    from .models import Models
    from .spec import Spec
    f = Facts(facts_path)
    I = Interp(f, Spec(f), Models(f))
    out = {'records': [], 'notes': [], 'cases': 0}
    if KEY not in f.bodies:
        out['notes'].append(f"{KEY}: no such function; the exact meridian map is undecided (the range rules of E1 still apply)")
        return out
    body = f.body(KEY)
    selfty = body['locals'][1]['ty']
    for mer in ('Am', 'Pm', None):
        st = State()
        me = I.top(st, selfty, 'self')
        rec = st.objs.get(me.root[1]) if isinstance(me, VRef) and me.root[0] == 'obj' else None
        if not isinstance(rec, VAdt):
            out['notes'].append(f"{KEY}: receiver is not a record reference; undecided")
            return out
        t = f.types[rec.ty]
        fidx = {x['name']: i for i, x in enumerate(t['variants'][0]['fields'])}
        if 'hour' not in fidx or 'ampm' not in fidx:
            out['notes'].append(f"{KEY}: record has no fields `hour` / `ampm`; undecided")
            return out
        fields = list(rec.variants[0])
        hty = t['variants'][0]['fields'][fidx['hour']]['ty']
        h = I.fresh_int(st, hty, 'hour12', 1, 12)
        fields[fidx['hour']] = h
        oty = t['variants'][0]['fields'][fidx['ampm']]['ty']
        ot = f.types[oty]
        ov = {v['name']: v for v in ot['variants']}
        if mer is None:
            fields[fidx['ampm']] = VAdt(oty, {ov['None']['idx']: ()})
        else:
            aty = ov['Some']['fields'][0]['ty']
            av = {v['name']: v['idx'] for v in f.types[aty]['variants']}
            if mer not in av:
                out['notes'].append(f"{KEY}: meridian type has no variant {mer}; undecided")
                return out
            fields[fidx['ampm']] = VAdt(oty, {ov['Some']['idx']: (VAdt(aty, {av[mer]: ()}),)})
        st.objs[me.root[1]] = VAdt(rec.ty, {0: tuple(fields)})
        try:
            res = I.call_local(st, KEY, [me])
        except AnalysisIncomplete as e:
            out['notes'].append(f"{KEY}: not analysable ({str(e)[:160]}); undecided")
            return out
        covered = set()
        for s2, _ in res:
            r2 = s2.objs.get(me.root[1])
            nh = r2.variants[0][fidx['hour']] if isinstance(r2, VAdt) else None
            if not isinstance(nh, VInt):
                out['notes'].append(f"{KEY} [{mer}]: hour after the call is {nh!r}; undecided")
                continue
            lo, hi = s2.num.rng(h.form)
            for v in range(max(lo, 1), min(hi, 12) + 1):
                for s3 in I.assume(s2.copy(), ('cmp', 'eq', h.form, Form.const(v)), True):
                    out['cases'] += 1
                    covered.add(v)
                    a, b = s3.num.rng(nh.form)
                    want = v if mer is None else (v % 12 + (12 if mer == 'Pm' else 0))
                    ok = a == b == want
                    if mer is None:
                        if not ok:
                            out['notes'].append(f"{KEY}: without a meridian {v} becomes [{a}, {b}] (not decided here; E1's picture rules bound the accepted hour)")
                        continue
                    if not ok and a <= want <= b:
                        out['notes'].append(f"{KEY}: {v} {mer}: the analysis bounds the stored hour by [{a}, {b}] only; undecided")
                        continue
                    out['records'].append({'prop': 'C05', 'clause': f"adjust_hour12: {v} {mer.upper() if mer else '(no meridian)'} is hour {want}",
                                           'ok': ok, 'detail': '' if ok else f"the stored hour is in [{a}, {b}]"})
        miss = sorted(set(range(1, 13)) - covered)
        if miss and mer is not None:
            out['records'].append({'prop': 'C05', 'clause': f"adjust_hour12: every 12-hour value returns ({mer or 'no meridian'})", 'ok': False,
                                   'detail': f"no exit for hour(s) {miss}"})
    seen, recs = set(), []
    for r in out['records']:
        k = (r['clause'], r['ok'], r['detail'])
        if k not in seen:
            seen.add(k)
            recs.append(r)
    out['records'] = recs
    return out


def main():
    out = run(sys.argv[1])
    with open(sys.argv[2], 'w') as fh:
        json.dump(out, fh, indent=1, default=str)
    print(f"hour12: cases {out['cases']} records {len(out['records'])} refuted {sum(1 for r in out['records'] if not r['ok'])} notes {len(out['notes'])}")


if __name__ == '__main__':
    main()
