"""The oracle side of engine E1: type invariants, root selection, root assumptions and the
calendar-kernel axioms.  Written from the property statements and the crate's rustdoc
(DESIGN.md section 2, "Invariants and contracts are the oracle"), not from the
implementation's constants; E3 separately checks that the crate's constants equal these.
"""
from __future__ import annotations

import re

from .facts import AnalysisIncomplete
from .lin import SYMTAB, Form
from .values import UNINIT, VAdt, VBool, VInt, VOpaque, VRef, VSlice, VTuple

D_US = 86_400_000_000
H_US = 3_600_000_000
MI_US = 60_000_000
S_US = 1_000_000

# proleptic Gregorian day numbers relative to 1970-01-01
DATE_MIN = -719_162            # 0001-01-01
DATE_MAX = 2_932_896           # 9999-12-31
UNIX_EPOCH_JULIAN = 2_440_588
JULIAN_MIN = DATE_MIN + UNIX_EPOCH_JULIAN   # 1721426
JULIAN_MAX = DATE_MAX + UNIX_EPOCH_JULIAN   # 5373484

INV = {
    'date::Date': (DATE_MIN, DATE_MAX, 1, 0),
    'time::Time': (0, D_US - 1, 1, 0),
    'timestamp::Timestamp': (DATE_MIN * D_US, (DATE_MAX + 1) * D_US - 1, 1, 0),
    'interval::IntervalYM': (-178_000_000 * 12, 178_000_000 * 12, 1, 0),
    'interval::IntervalDT': (-100_000_000 * D_US, 100_000_000 * D_US, 1, 0),
    # Oracle-style date: a timestamp on a whole second, up to 9999-12-31 23:59:59
    'oracle::Date': (DATE_MIN * D_US, (DATE_MAX + 1) * D_US - S_US, S_US, 0),
}

SIX = set(INV)

# documented `# Panics` (not one of the six types): callees with a precondition, not roots (DESIGN 2/E0)
DOCUMENTED_PANICS = {
    '<date::WeekDay as std::convert::From<usize>>::from',
    '<date::Month as std::convert::From<usize>>::from',
}


def check_inv(st, adt_def, form):
    lo, hi, mod, rem = INV[adt_def]
    a, b = st.num.rng(form)
    if not (a >= lo and b <= hi):
        a, b = st.num.rng2(form)
    r = st.num.residue(form, mod) if mod > 1 else None
    if mod > 1 and r == rem:
        # on the grid of the type: the interval ends can be moved to the nearest grid points
        a = a + ((rem - a) % mod)
        b = b - ((b - rem) % mod)
    ok = a >= lo and b <= hi
    why = ''
    if not ok:
        why = f"count {form!r} in [{a}, {b}] not within [{lo}, {hi}]"
    if ok and mod > 1:
        if r != rem:
            ok = False
            why = f"count {form!r} not proved = {rem} (mod {mod})"
    return ok, why


class Spec:
    def __init__(self, facts):
        self.facts = facts
        self.escaping = None
        self.cur = None
        self.axioms_used = {}
        self.inline_kernel = False
        self.inline_assembly = False
        self.summarised = {r['key'] for r in facts.roots if r['def'] == 'format::Formatter::parse'}
        # trace partitioning at loop heads: one invariant per combination of these small flag values
        # (12-hour/24-hour/meridian bookkeeping of the parser); a precision hint, sound whatever it lists
        self.partition_types = {'std::option::Option<bool>', 'std::option::Option<format::AmPm>'}
        self.partition_nested_bools = True      # sign flag of the record being parsed
        self.d2j_range = (JULIAN_MIN - 400, JULIAN_MAX + 400)
        self.field_ty = self._find_field_ty()

    def _find_field_ty(self):
        for name, t in self.facts.types.items():
            if t.get('k') == 'adt' and t.get('def') == 'format::Field':
                return name
        return None

    # ------------------------------------------------------------------ roots
    def compute_escaping(self):
        esc = set()
        local_adts = set(self.facts.adts)
        # ADTs local to a function body (serde visitors) escape when handed to a foreign generic call;
        # ADTs returned from exported functions (behind `impl Trait`) are reachable by callers.
        for b in self.facts.bodies.values():
            for bb in b['blocks']:
                t = bb['term']
                if t['t'] == 'call' and not t['callee'].get('local'):
                    for a in t['callee'].get('args', []):
                        for d in local_adts:
                            if d in a and self.facts.adts[d]['in_fn']:
                                esc.add(d)
        for it in self.facts.items.values():
            if it['exported'] and it['has_body']:
                for b in self.facts.bodies.values():
                    if b['def'] == it['def'] and b['locals']:
                        rt = b['locals'][0]['ty']
                        for d in local_adts:
                            if re.search(r'(^|[^:\w])' + re.escape(d) + r'($|[^:\w])', rt):
                                esc.add(d)
        self.escaping = esc
        return esc

    def is_root_item(self, it):
        if self.escaping is None:
            self.compute_escaping()
        if it['unsafe'] or not it['has_body'] or it['derived'] or it['in_trait_decl']:
            return False
        if it['def'] in DOCUMENTED_PANICS:
            return False
        if not it['trait_impl']:
            if it['exported']:
                return True
            # inherent methods of escaping (unnameable but reachable) types
            return bool(it['header_adts']) and all((h['def'] in self.escaping) for h in it['header_adts']) and it['reachable']
        for h in it['header_adts']:
            if not (h['exported'] or h['def'] in self.escaping):
                return False
        return True

    def root_keys(self):
        out = []
        for r in self.facts.roots:
            it = self.facts.items.get(r['def'])
            if it is None:
                continue
            if self.is_root_item(it) and r['key'] in self.facts.bodies:
                out.append(r['key'])
        return out

    # ------------------------------------------------------------------ values
    def six_of(self, ty):
        t = self.facts.types.get(ty)
        if t and t.get('k') == 'adt' and t.get('def') in SIX:
            return t['def']
        return None

    def top_override(self, interp, st, ty, name, assume_inv):
        d = self.six_of(ty)
        if d is not None:
            lo, hi, mod, rem = INV[d] if assume_inv else (None, None, 1, 0)
            if d == 'oracle::Date':
                ts_ty = self.facts.types[ty]['variants'][0]['fields'][0]['ty']
                v = interp.fresh_int(st, 'i64', name, lo, hi, mod=mod, rem=rem)
                return VAdt(ty, {0: (VAdt(ts_ty, {0: (v,)}),)})
            fty = self.facts.types[ty]['variants'][0]['fields'][0]['ty']
            v = interp.fresh_int(st, fty, name, lo, hi, mod=mod, rem=rem)
            return VAdt(ty, {0: (v,)})
        t = self.facts.types.get(ty)
        if t and t.get('k') == 'adt':
            dd = t.get('def')
            if dd == 'format::Formatter':
                return interp.models.formatter_value(interp, st, ty)
            if dd == 'format::Field' and assume_inv:
                return interp.models.field_value(interp, st, ty)
        return None

    def static_value(self, interp, st, defpath):
        return VOpaque(None, 'lazy_formatter', defpath)

    def discr_ty(self, t):
        return 'isize'

    # ------------------------------------------------------------------ hooks
    def on_construct(self, interp, st, rv, v, body, fid):
        d = rv['def']
        if d in INV:
            f = v.variants[0][0]
            if d == 'oracle::Date':
                if isinstance(f, VAdt):
                    f = f.variants[0][0]
            bbi, sp = interp.cur_site
            if isinstance(f, VInt):
                ok, why = check_inv(st, d, f.form)
            else:
                ok, why = False, f"field is {f!r}"
            if not ok and isinstance(f, VInt):
                # not (yet) provably in range: decided where the value leaves the library (check_exit) - an
                # out-of-range temporary that is range-checked before it is returned is not a result
                st.notes['inv_pending'] = st.notes.get('inv_pending', ()) + ((d, f.form, body['def'], bbi, sp, why),)
                return
            interp.oblige('R-inv', body['def'], bbi, f"construct {d}", sp, ok, st, why)
        elif d == 'format::Field':
            pass

    def check_exit(self, interp, st, v):
        """the values of the six types that a root returns satisfy their invariant; constructions whose check was
        deferred are failed here if their value escapes, discharged otherwise"""
        pend = list(st.notes.get('inv_pending', ()))
        if not pend:
            return
        escaped = set()

        def walk(x, depth=0):
            if depth > 6:
                return
            if isinstance(x, VAdt):
                d = interp.facts.types.get(x.ty, {}).get('def')
                if d in INV and x.single() is not None:
                    f = x.variants[x.single()][0]
                    if d == 'oracle::Date' and isinstance(f, VAdt) and f.single() is not None:
                        f = f.variants[f.single()][0]
                    if isinstance(f, VInt):
                        ok, why = check_inv(st, d, f.form)
                        if not ok:
                            for i, pe in enumerate(pend):
                                if pe[0] == d and (pe[1] == f.form or st.num.eq0(pe[1].sub(f.form))):
                                    escaped.add(i)
                    return
                for fs in x.variants.values():
                    for y in fs:
                        walk(y, depth + 1)
            elif isinstance(x, VTuple):
                for y in x.elems:
                    walk(y, depth + 1)
            elif isinstance(x, VRef) and x.root[0] == 'val':
                walk(x.root[1], depth + 1)
        walk(v)
        for i, (d, form, fn, bbi, sp, why) in enumerate(pend):
            interp.oblige('R-inv', fn, bbi, f"construct {d}", sp, i not in escaped, st, why + ' (and the value is returned)')

    # functions whose contract requires an exact integer -> float conversion (C16: nearest second, exact distance)
    EXACT_CAST_FNS = {'oracle::Date::add_days', 'oracle::Date::sub_date'}

    def on_cast(self, interp, st, rv, a, to):
        if rv['kind'] != 'IntToFloat' or interp.cur_fn not in self.EXACT_CAST_FNS:
            return
        lo, hi = st.num.rng(a.form)
        m = max(abs(lo), abs(hi))
        ok = m <= (1 << 53)
        why = ''
        if not ok:
            best = 0
            for k in range(1, 12):
                if st.num.residue(a.form, 1 << k) == 0:
                    best = k
                else:
                    break
            ok = (m >> best) <= (1 << 53)
            why = f"values up to {m} (> 2^53) that are multiples of 2^{best} only: not exactly representable as f64"
        bbi, sp = interp.cur_site
        interp.oblige('C-cast', interp.cur_fn, bbi, f"exact int->float conversion of {rv['from']}", sp, ok, st, why)

    # ---- calendar kernel: analysed out of line under a precondition, summarised at call sites (K1/K2)
    KERNEL = ('common::julian2date', 'common::date2julian')
    D2J_PRE = ((0, 10000), (1, 12), (1, 31))

    def kernel_roots(self):
        return [k for k in self.KERNEL if k in self.facts.bodies]

    def kernel_args(self, interp, st, key):
        if key == 'common::julian2date':
            return [interp.fresh_int(st, 'i32', 'julian_day', JULIAN_MIN, JULIAN_MAX)]
        (ylo, yhi), (mlo, mhi), (dlo, dhi) = self.D2J_PRE
        return [interp.fresh_int(st, 'i32', 'year', ylo, yhi), interp.fresh_int(st, 'u32', 'month', mlo, mhi),
                interp.fresh_int(st, 'u32', 'day', dlo, dhi)]

    def pre_ob(self, interp, st, key, ok, detail):
        bbi, sp = interp.cur_site
        caller = st.stack[-1][1] if st.stack else '?'
        body = interp.facts.bodies.get(caller)
        interp.oblige('P-pre', body['def'] if body else caller, bbi, f"precondition of {key}", sp, ok, st, detail)

    # ---- the assembly step of the parser: T::try_from(NaiveDateTime), analysed out of line under a precondition
    NDT_PRE = {'year': (-999_999_999, 999_999_999), 'month': (0, 999_999_999), 'day': (0, 999_999_999),
               'hour': (0, 999_999_999), 'minute': (0, 999_999_999), 'sec': (0, 999_999_999), 'usec': (0, 1_000_000)}

    LEXER = "format::FormatParser::<'_>::next"

    # small crate-private helpers analysed on their own with stated argument ranges (C01 calendar rules)
    HELPERS = {
        'common::is_leap_year': [('i32', None, None)],
        'common::days_of_month': [('i32', None, None), ('u32', 1, 12)],
        'common::the_day_of_year': [('i32', None, None), ('u32', 1, 12), ('u32', 1, 31)],
        'date::Date::validate_ymd': [('i32', None, None), ('u32', None, None), ('u32', None, None)],
    }

    def internal_roots(self):
        out = [k for k in self.facts.bodies if self.is_assembly(k)]
        if self.LEXER in self.facts.bodies:
            out.append(self.LEXER)
        for k in self.HELPERS:
            if k in self.facts.bodies:
                out.append(k)
            else:
                raise AnalysisIncomplete(f"anchor missing: {k}")
        return out

    def is_assembly(self, key):
        return key.startswith('<') and key.endswith(' as std::convert::TryFrom<format::NaiveDateTime>>::try_from')

    def ndt_fields(self, v):
        t = self.facts.types[v.ty]
        return {f['name']: i for i, f in enumerate(t['variants'][0]['fields'])}

    def lexer_args(self, interp, st):
        """&mut FormatParser { input: arbitrary bytes, pos: arbitrary position inside }"""
        body = self.facts.bodies[self.LEXER]
        rty = body['locals'][1]['ty']
        pty = self.facts.types[rty]['to']
        t = self.facts.types[pty]
        idx = {f['name']: i for i, f in enumerate(t['variants'][0]['fields'])}
        oid = st.new_id()
        ln = interp.fresh_int(st, 'usize', 'len(picture)', 0, (1 << 63) - 1)
        p0 = interp.fresh_int(st, 'usize', 'pos0', 0, (1 << 63) - 1)
        st.num.add_fact(p0.form.sub(ln.form))
        fs = [None, None]
        fs[idx['input']] = VSlice(('obj', oid), Form.const(0), ln.form, ('bytes', 0, 255), 'u8')
        fs[idx['pos']] = p0
        pid = st.new_id()
        st.objs[pid] = VAdt(pty, {0: tuple(fs)})
        self.lexer_ctx = {'obj': pid, 'base': ('obj', oid), 'len': ln.form, 'p0': p0.form, 'pos_idx': idx['pos']}
        return [VRef(('obj', pid))]

    def internal_args(self, interp, st, key):
        if key == self.LEXER:
            return self.lexer_args(interp, st)
        if key in self.HELPERS:
            body = self.facts.bodies[key]
            return [interp.fresh_int(st, ty, body['locals'][i + 1]['name'] or f"a{i}", lo, hi) for i, (ty, lo, hi) in enumerate(self.HELPERS[key])]
        body = self.facts.bodies[key]
        ty = body['locals'][1]['ty']
        v = interp.top(st, ty, 'dt', assume_inv=False)
        idx = self.ndt_fields(v)
        fs = list(v.variants[0])
        for nm, (lo, hi) in self.NDT_PRE.items():
            f = fs[idx[nm]]
            fs[idx[nm]] = interp.fresh_int(st, f.ty, f"dt.{nm}", lo, hi)
        return [VAdt(v.ty, {0: tuple(fs)})]

    def internal_variants(self, key):
        """case split of the precondition: for the year-month interval the sign flag and the sign of the parsed
        year agree (the parser sets both from one signed number)"""
        if key.startswith('<interval::IntervalYM as '):
            return ['negative=false', 'negative=true']
        return [None]

    def apply_internal_variant(self, interp, st, args, variant):
        if variant is None:
            return args
        v = args[0]
        idx = self.ndt_fields(v)
        fs = list(v.variants[0])
        neg = variant.endswith('true')
        fs[idx['negative']] = VBool(neg)
        y = fs[idx['year']]
        if neg:
            st.num.add_fact(y.form)
        else:
            st.num.add_fact(y.form.neg())
        return [VAdt(v.ty, {0: tuple(fs)})]

    def call_override(self, interp, st, key, args):
        if self.is_assembly(key) and st.stack and not self.inline_assembly:
            v = args[0]
            ok = isinstance(v, VAdt)
            detail = ''
            if ok:
                idx = self.ndt_fields(v)
                fs = v.variants[0]
                for nm, (lo, hi) in self.NDT_PRE.items():
                    f = fs[idx[nm]]
                    if not isinstance(f, VInt):
                        ok, detail = False, f"{nm} is {f!r}"
                        break
                    a, b = st.num.rng(f.form)
                    if a < lo or b > hi:
                        ok, detail = False, f"dt.{nm} = {f.form!r} in [{a}, {b}] must be within [{lo}, {hi}]"
                        break
                if ok and key.startswith('<interval::IntervalYM as '):
                    ng = fs[idx['negative']]
                    yl, yh = st.num.rng(fs[idx['year']].form)
                    if isinstance(ng, VBool) and ng.val is True:
                        ok = yh <= 0
                    elif isinstance(ng, VBool) and ng.val is False:
                        ok = yl >= 0
                    else:
                        ok = yl == 0 == yh
                    if not ok:
                        detail = f"sign flag {ng!r} and parsed year in [{yl}, {yh}] must agree"
            self.pre_ob(interp, st, key, ok, detail)
            # remember which fields of the record depend on the clock (C18)
            if isinstance(v, VAdt):
                idx = self.ndt_fields(v)
                tainted = []
                for nm in ('year', 'month', 'day', 'hour', 'minute', 'sec', 'usec'):
                    f = v.variants[0][idx[nm]]
                    if isinstance(f, VInt) and any(SYMTAB.syms[s].taint for s, _ in f.form.terms):
                        tainted.append(nm)
                vals = {}
                for nm in ('year', 'month', 'day', 'hour', 'minute', 'sec', 'usec'):
                    f = v.variants[0][idx[nm]]
                    if isinstance(f, VInt):
                        vals[nm] = (f.form, st.num.rng(f.form))
                ng = v.variants[0][idx['negative']]
                vals['negative'] = ng.val if isinstance(ng, VBool) else None
                # has all input been consumed?  (some byte slice of the caller's frame is provably empty)
                left = False
                if st.stack:
                    fr = st.frames.get(st.stack[-1][0], {})
                    for lv in fr.values():
                        if isinstance(lv, VSlice) and lv.elem[0] in ('bytes',) and st.num.rng(lv.len) == (0, 0):
                            left = True
                            break
                am = v.variants[0][idx['ampm']]
                amv = None
                if isinstance(am, VAdt) and am.single() is not None:
                    if am.single() == 0:
                        amv = 'none'
                    else:
                        inner = am.variants[1][0]
                        if isinstance(inner, VAdt) and inner.single() is not None:
                            tt = self.facts.types[inner.ty]
                            amv = [x['name'] for x in tt['variants'] if x['idx'] == inner.single()][0]
                vals['ampm'] = amv
                vals['input_consumed'] = left
                vals['dowcmp'] = st.notes.get('dowcmp', 0)
                vals['dowcheck'] = st.notes.get('dowcheck')
                interp.events.append(('assembly', key, tuple(tainted), st.notes.get('clock_reads', 0), vals, st))
                st.notes['assembled'] = st.notes.get('assembled', ()) + ((tuple(tainted), tuple(sorted((k, v[1]) for k, v in vals.items() if isinstance(v, tuple)))),)
            body = self.facts.bodies[key]
            return [(st, interp.top(st, body['locals'][0]['ty'], 'assembled'))]
        if key in self.summarised and st.stack:
            # this instance is itself analysed as a root under weaker assumptions (arbitrary Formatter
            # satisfying the container invariant, arbitrary input): use its contract at call sites
            body = self.facts.bodies[key]
            self.axioms_used['root-summary'] = self.axioms_used.get('root-summary', 0) + 1
            return [(st, interp.top(st, body['locals'][0]['ty'], 'parsed'))]
        if key not in self.KERNEL or self.inline_kernel:
            return None
        if key == 'common::julian2date':
            (j,) = args
            lo, hi = st.num.rng(j.form) if isinstance(j, VInt) else (None, None)
            ok = isinstance(j, VInt) and lo >= JULIAN_MIN and hi <= JULIAN_MAX
            self.pre_ob(interp, st, key, ok, f"julian day {j!r} in [{lo}, {hi}] must be within [{JULIAN_MIN}, {JULIAN_MAX}]")
            if not ok:
                return [(st, VTuple([interp.top(st, 'i32', 'y'), interp.top(st, 'u32', 'm'), interp.top(st, 'u32', 'd')]))]
            return [(st, self.k2_summary(st, j))]
        y, m, d = args
        ok = all(isinstance(v, VInt) for v in args)
        detail = ''
        if ok:
            for v, (lo, hi), nm in zip(args, self.D2J_PRE, ('year', 'month', 'day')):
                a, b = st.num.rng(v.form)
                if a < lo or b > hi:
                    ok = False
                    detail = f"{nm} {v.form!r} in [{a}, {b}] must be within [{lo}, {hi}]"
        self.pre_ob(interp, st, key, ok, detail)
        if not ok:
            return [(st, interp.top(st, 'i32', 'julian'))]
        return [(st, self.k1_summary(st, y, m, d))]

    def pre_call(self, interp, st, key, args):
        if key.startswith('format::write_u32') and len(args) == 3:
            v, w = args[1], args[2]
            wl, wh = st.num.rng(w.form) if isinstance(w, VInt) else (None, None)
            st.notes['u32'] = st.notes.get('u32', ()) + ((v.form if isinstance(v, VInt) else None, wl if wl == wh else None),)
        if key == '<date::Date as std::convert::TryFrom<&format::NaiveDateTime>>::try_from' and len(args) == 1 and st.stack \
                and 'parse_internal' in st.stack[-1][1]:
            # the date whose weekday the parser compares with a weekday field: remember the record fields at that point
            v = args[0]
            if isinstance(v, VRef):
                try:
                    v = interp.load(st, v.root, v.path)
                except Exception:
                    v = None
            if isinstance(v, VAdt) and v.single() is not None:
                idx = self.ndt_fields(v)
                fs = v.variants[0]
                st.notes['dowcheck'] = tuple(fs[idx[nm]].form if isinstance(fs[idx[nm]], VInt) else None for nm in ('year', 'month', 'day'))
        return None

    def dom_sym(self, yf: Form, mf: Form):
        return SYMTAB.opaque('dom', (yf.key(), mf.key()), 28, 31, name=f"dom({yf!r},{mf!r})")

    def jd_sym(self, yf: Form, mf: Form):
        lo, hi = self.d2j_range
        return SYMTAB.opaque('jd', (yf.key(), mf.key()), lo - 31, hi - 1, name=f"jd({yf!r},{mf!r})")

    def k1_summary(self, st, y, m, d):
        """date2julian(y, m, d) = JD(y, m) + d; for a valid triple of years 1..9999 the day number is in range (K1)"""
        ylo, yhi = st.num.rng(y.form)
        mlo, mhi = st.num.rng(m.form)
        dlo, dhi = st.num.rng(d.form)
        jd = self.jd_sym(y.form, m.form)
        f = Form.sym(jd).add(d.form)
        if ylo >= 1 and yhi <= 9999 and mlo >= 1 and mhi <= 12 and dlo >= 1:
            valid = dhi <= 28
            if not valid:
                dom = self.dom_sym(y.form, m.form)
                valid = st.num.le0(d.form.sub(Form.sym(dom)))
            if not valid and ylo == yhi and mlo == mhi and dlo == dhi:
                valid = dhi <= _dom(ylo, mlo)
            if valid:
                self.axioms_used['K1'] = self.axioms_used.get('K1', 0) + 1
                st.num.add_fact(f.addc(-JULIAN_MAX))
                st.num.add_fact(f.neg().addc(JULIAN_MIN))
            # K1b: Jan 1 of the own year of a date (year taken from its K2 decomposition)
            if mlo == mhi == 1 and dlo == dhi == 1 and len(y.form.terms) == 1 and y.form.c == 0 and y.form.terms[0][1] == 1:
                info = SYMTAB.syms[y.form.terms[0][0]]
                if info.kind == 'opaque' and info.data[0] == 'year':
                    j = Form(info.data[1][0], info.data[1][1])
                    self.axioms_used['K1b'] = self.axioms_used.get('K1b', 0) + 1
                    doy0 = j.sub(f)           # day-of-year - 1 of the date whose year this is
                    st.num.add_fact(doy0.neg())
                    st.num.add_fact(doy0.addc(-365))
        return VInt(f, 'i32')

    def k2_summary(self, st, j):
        self.axioms_used['K2'] = self.axioms_used.get('K2', 0) + 1
        taint = frozenset()
        for s, _ in j.form.terms:
            taint |= SYMTAB.syms[s].taint
        ys = SYMTAB.opaque('year', j.form.key(), 1, 9999, name=f"year({j.form!r})", taint=taint)
        ms = SYMTAB.opaque('month', j.form.key(), 1, 12, name=f"month({j.form!r})", taint=taint)
        ds = SYMTAB.opaque('day', j.form.key(), 1, 31, name=f"day({j.form!r})", taint=taint)
        yf, mf, df = Form.sym(ys), Form.sym(ms), Form.sym(ds)
        dom = self.dom_sym(yf, mf)
        jd = self.jd_sym(yf, mf)
        n = st.num
        n.add_fact(df.sub(Form.sym(dom)))                       # day <= days_of_month(year, month)
        link = Form.sym(jd).add(df).sub(j.form)                   # date2julian(year, month, day) == j
        n.add_fact(link)
        n.add_fact(link.neg())
        n.add_fact(Form.sym(jd).add(Form.sym(dom)).addc(-JULIAN_MAX))   # the month's last day is in range
        n.add_fact(Form.sym(jd).neg().addc(JULIAN_MIN - 1))             # the month's first day is in range
        return VTuple([VInt(yf, 'i32'), VInt(mf, 'u32'), VInt(df, 'u32')])

    def post_call(self, interp, st, key, args, ret):
        if key == 'common::days_of_month':
            y, m = args
            if isinstance(y, VInt) and isinstance(m, VInt) and isinstance(ret, VInt):
                lo, hi = st.num.rng(m.form)
                if lo >= 1 and hi <= 12:
                    s = self.dom_sym(y.form, m.form)
                    rlo, rhi = st.num.rng(ret.form)
                    # the analysed body (table lookup) must agree with the summary's range
                    if rlo >= 28 and rhi <= 31:
                        if rlo > 28:
                            st.num.set_lo(s, rlo)
                        if rhi < 31:
                            st.num.set_hi(s, rhi)
                        return VInt(Form.sym(s), ret.ty)
            return None
        if key == 'common::the_month_day_of_days' and len(args) == 2 and isinstance(args[0], VInt):
            lp = args[1]
            interp.events.append(('doy', st.num.rng(args[0].form), lp.val if isinstance(lp, VBool) else None))
            return None
        if key.startswith('format::parse_year') and isinstance(ret, VAdt) and ret.single() == 0 and len(args) == 3:
            # Ok((negative, year, rest)): how much text was consumed and whether the year depends on the clock
            tup = ret.variants[0][0]
            src, ml = args[0], args[1]
            if isinstance(tup, VTuple) and isinstance(src, VSlice) and isinstance(tup.elems[2], VSlice) and isinstance(ml, VInt):
                consumed = src.len.sub(tup.elems[2].len)
                yr = tup.elems[1]
                tainted = isinstance(yr, VInt) and any(SYMTAB.syms[s_].taint for s_, _ in yr.form.terms)
                # the clock-derived part of a completed year: terms M*Div(current year, M)
                mods = None
                if isinstance(yr, VInt) and tainted:
                    mods = []
                    for s_, k_ in yr.form.terms:
                        info = SYMTAB.syms[s_]
                        if not info.taint:
                            continue
                        if info.kind == 'div' and isinstance(info.data, tuple) and info.data[1] == k_:
                            mods.append(k_)
                        else:
                            mods.append(None)
                interp.events.append(('parse_year', st.num.rng(ml.form), tainted, st.num.rng2(consumed), mods))
            return None
        if key == 'date::Date::date_to_iso_year' and isinstance(ret, VInt):
            # K3: the ISO year of a date in 0001-01-01..9999-12-31 is in 1..=9999
            # (0001-01-01 is a Monday, 9999-12-31 a Friday)
            self.axioms_used['K3'] = self.axioms_used.get('K3', 0) + 1
            try:
                st.num.add_fact(ret.form.addc(-9999))
                st.num.add_fact(ret.form.neg().addc(1))
            except Exception:
                raise
            return None
        return None

    def root_extra(self, interp, key, args, res):
        """small per-root facts used by the E2-style rules (taint of the result, clock reads per path)"""
        info = {'clock_reads_max': 0, 'tainted_ok': 0, 'ok_exits': 0, 'err_kinds': {}}
        for (st, v) in res:
            info['clock_reads_max'] = max(info['clock_reads_max'], st.notes.get('clock_reads', 0))
        return info

    # ------------------------------------------------------------------ root arguments
    def is_text_root(self, root):
        return root.startswith('format::') or 'serialize' in root or '::parse::' in root or '::format::' in root or 'LazyFormat' in root

    def no_table_fork(self, st):
        """inside Date::day_of_week reached from text code the per-weekday case split is merged again at the return
        (merge_limit 1): do not make it in the first place"""
        if not st.stack or not self.is_text_root(st.stack[0][1]):
            return False
        for _, k in st.stack:
            if k == 'date::Date::day_of_week':
                return True
        return False

    def merge_limit(self, key, st=None):
        if st is not None and st.stack and st.stack[0][1] == self.LEXER:
            return 10 ** 9
        """trace-partitioning bound per callee: the text-processing helpers of the formatter/parser return many
        equivalent exit states and are merged beyond 8; arithmetic code is never merged (its exits carry the
        case splits the contracts are stated on)"""
        if key.startswith('format::') or key == 'common::the_month_day_of_days':
            return 8
        if key == 'date::Date::day_of_week' and st is not None and st.stack:
            root = st.stack[0][1]
            if root.startswith('format::') or 'serialize' in root or '::parse::' in root or '::format::' in root or 'LazyFormat' in root:
                return 1      # text code only prints / compares the weekday: no need for the per-weekday case split
        return 10 ** 9

    # ---- concrete one- and two-token pictures (DESIGN 3: C04/C05/C06/C19 token rules)
    TOKENS = [
        ('YYYY', 'Year', 4), ('YY', 'Year', 2), ('Y', 'Year', 1), ('YYY', 'Year', 3), ('MM', 'Month', None), ('DD', 'Day', None),
        ('HH24', 'Hour24', None), ('HH12', 'Hour12', None), ('MI', 'Minute', None), ('SS', 'Second', None),
        ('FF', 'Fraction', None), ('FF3', 'Fraction', 3), ('FF9', 'Fraction', 9),
        ('AM', 'AmPm', 'Upper'), ('a.m.', 'AmPm', 'LowerDot'),
        ('MONTH', 'MonthName', 'Upper'), ('Mon', 'MonthName', 'AbbrCapital'), ('DAY', 'DayName', 'Upper'), ('dy', 'DayName', 'AbbrLower'),
        ('D', 'DayOfWeek', None), ('DDD', 'DayOfYear', None), ('W', 'WeekOfMonth', None), ('WW', 'WeekOfYear', None),
        ('-', 'Hyphen', None), (':', 'Colon', None), ('/', 'Slash', None), ('\\', 'Backslash', None), (',', 'Comma', None),
        ('.', 'Dot', None), (';', 'Semicolon', None), ('T', 'T', None), (' ', 'Blank', 1),
    ]
    PAIRS = [('YYYY', 'YYYY'), ('YYYY', 'YY'), ('MM', 'MM'), ('MM', 'MONTH'), ('MONTH', 'Mon'), ('DD', 'DD'), ('HH24', 'HH24'), ('HH24', 'HH12'),
             ('HH12', 'HH12'), ('MI', 'MI'), ('SS', 'SS'), ('FF', 'FF3'), ('AM', 'AM'), ('AM', 'a.m.'), ('HH24', 'AM'), ('AM', 'HH24'),
             ('D', 'D'), ('D', 'DAY'), ('DAY', 'dy'), ('DDD', 'DDD'), ('YYYY', 'MM'), ('HH12', 'AM'), ('AM', 'HH12'),
             ('MM', 'DDD'), ('DDD', 'MONTH'), ('DD', 'DDD'), ('DDD', 'DD'), ('DDD', 'DAY'), ('D', 'DDD'), ('YYYY', 'DDD'), ('DD', 'DAY'), ('MM', 'DD')]

    def mk_field(self, interp, name, payload):
        fty = self.field_ty
        t = self.facts.types[fty]
        v = [x for x in t['variants'] if x['name'] == name]
        if not v:
            raise AnalysisIncomplete(f"anchor missing: Field::{name}")
        v = v[0]
        fs = []
        for f in v['fields']:
            ft = self.facts.types.get(f['ty'], {})
            if ft.get('k') == 'int':
                fs.append(VInt(Form.const(int(payload)), f['ty']))
            elif ft.get('def', '').endswith('option::Option'):
                if payload is None:
                    fs.append(VAdt(f['ty'], {0: ()}))
                else:
                    inner = [x for x in ft['variants'] if x['idx'] == 1][0]['fields'][0]['ty']
                    fs.append(VAdt(f['ty'], {1: (VInt(Form.const(int(payload)), inner),)}))
            elif ft.get('k') == 'adt':
                pv = [x for x in ft['variants'] if x['name'] == payload]
                if not pv:
                    raise AnalysisIncomplete(f"anchor missing: {f['ty']}::{payload}")
                fs.append(VAdt(f['ty'], {pv[0]['idx']: ()}))
            else:
                raise AnalysisIncomplete(f"payload type {f['ty']} of Field::{name}")
        return VAdt(fty, {v['idx']: tuple(fs)})

    def picture_fields(self, interp, names):
        cat = {t[0]: t for t in self.TOKENS}
        return [self.mk_field(interp, cat[n][1], cat[n][2]) for n in names]

    def is_picture_root(self, key):
        return key.startswith('format::Formatter::parse::<&str, ') or key.startswith('format::Formatter::format::<&mut std::string::String, ')

    def root_variants(self, key):
        """case split of a heavy root into independently analysed variants (covering all cases), plus the
        concrete-picture instances used by the token rules"""
        out = [None]
        if key in self.summarised:
            out = ['format_exact=false', 'format_exact=true']
        if self.is_picture_root(key):
            # (format_exact is never set by any constructor; the picture rules use the default `false`)
            fx = ['fx0'] if key in self.summarised else ['']
            for f in fx:
                out.append(f"pic:{f}|")
                for t in self.TOKENS:
                    out.append(f"pic:{f}|{t[0]}")
                for a, b in self.PAIRS:
                    out.append(f"pic:{f}|{a}|{b}")
        return out

    def root_args(self, interp, st, key, body, variant=None):
        args = []
        for i in range(1, body['argc'] + 1):
            l = body['locals'][i]
            args.append(interp.top(st, l['ty'], l['name'] or f"arg{i}"))
        if variant is not None and variant.startswith('pic:'):
            parts = variant[4:].split('|')
            fx, names = parts[0], [p for p in parts[1:] if p != '']
            ref = args[0]
            fv = interp.load(st, ref.root, ref.path)
            t = self.facts.types[fv.ty]
            fidx = {f['name']: i for i, f in enumerate(t['variants'][0]['fields'])}
            fs = list(fv.variants[0])
            fs[fidx['fields']] = VOpaque(fs[fidx['fields']].ty, 'stackvec_c', tuple(self.picture_fields(interp, names)))
            if fx:
                fs[fidx['format_exact']] = VBool(fx == 'fx1')
            interp.store(st, ref.root, ref.path, VAdt(fv.ty, {0: tuple(fs)}))
            return args
        if variant is not None and variant.startswith('format_exact='):
            want = variant.endswith('true')
            ref = args[0]
            fv = interp.load(st, ref.root, ref.path)
            t = self.facts.types[fv.ty]
            idx = [i for i, f in enumerate(t['variants'][0]['fields']) if f['name'] == 'format_exact']
            if len(idx) != 1:
                raise AnalysisIncomplete('anchor missing: Formatter.format_exact')
            fs = list(fv.variants[0])
            fs[idx[0]] = VBool(want)
            interp.store(st, ref.root, ref.path, VAdt(fv.ty, {0: tuple(fs)}))
        return args


def _leap(y):
    return y % 4 == 0 and (y % 100 != 0 or y % 400 == 0)


def _dom(y, m):
    return [31, 29 if _leap(y) else 28, 31, 30, 31, 30, 31, 31, 30, 31, 30, 31][m - 1]
