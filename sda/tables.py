"""Engine E3: constant-table rules (DESIGN.md Appendix C).

Every table is compared entry by entry with the rule it must follow; the rule is generated here
from the property text / the calendar, never read back from the crate.  A missing table is an
anchor failure (AnalysisIncomplete), not a pass.
"""
from __future__ import annotations

import re

from .facts import AnalysisIncomplete

MONTHS = ['January', 'February', 'March', 'April', 'May', 'June', 'July', 'August', 'September', 'October',
          'November', 'December']
DAYS = ['Sunday', 'Monday', 'Tuesday', 'Wednesday', 'Thursday', 'Friday', 'Saturday']
MONTH_LEN = [31, 28, 31, 30, 31, 30, 31, 31, 30, 31, 30, 31]


def find_const(facts, pattern):
    rx = re.compile(pattern)
    hits = [c for d, c in facts.consts.items() if rx.search(d)]
    if len(hits) != 1:
        raise AnalysisIncomplete(f"constant matching /{pattern}/: {len(hits)} candidates")
    return hits[0]


def py(v):
    """decoded constant -> python value"""
    c = v.get('c')
    if c in ('int', 'bool', 'str'):
        return v['v']
    if c == 'float':
        return ('f', v['repr'])
    if c in ('array', 'slice'):
        items = v['v']
        if items and not isinstance(items[0], dict):
            return list(items)
        return [py(x) for x in items]
    if c == 'tuple':
        return tuple(py(x) for x in v['v'])
    if c == 'ref':
        return py(v['v'])
    if c == 'fn':
        return ('fn', v.get('def') or v['key'])
    if c == 'adt':
        if not v['fields']:
            return ('variant', v['variant'], v['discr'])
        return ('adt', v['def'], v['variant'], [py(f) for f in v['fields']])
    return ('?', c)


def count_of(v):
    """count of a constant of one of the six types"""
    x = py(v)
    while isinstance(x, tuple) and x[0] == 'adt':
        x = x[3][0]
    return x


class T:
    """helper: report one obligation per table entry"""

    def __init__(self, rep, facts):
        self.rep = rep
        self.facts = facts

    def table(self, pattern, optional=False):
        """optional: a table whose unit is decided by an E1 contract as well - an implementation that computes the
        value instead of looking it up has no such table, which is not an anchor failure"""
        if optional:
            rx = re.compile(pattern)
            hits = [c for d, c in self.facts.consts.items() if rx.search(d)]
            if not hits:
                self.rep.notes.append(f"no constant matching /{pattern}/ in this tree: the unit is decided by its E1 contract alone")
                return None, None
        c = find_const(self.facts, pattern)
        return c['def'], py(c['val'])

    def entries(self, name, got, want, rule):
        if not isinstance(got, list) or len(got) != len(want):
            self.rep.ob(f"E3|{name}|len", False, f"table {name}: length {len(got) if isinstance(got, list) else '?'} != {len(want)} ({rule})", rule='E3-table')
            return
        for i, (g, w) in enumerate(zip(got, want)):
            if w is None:
                continue
            self.rep.ob(f"E3|{name}|[{i}]", g == w, f"table {name}[{i}] = {g!r}, rule ({rule}) gives {w!r}", rule='E3-table')
        self.rep.sample({'table': name, 'rule': rule, 'entries': len(want)})

    def scalar(self, pattern, want, what):
        c = find_const(self.facts, pattern)
        got = py(c['val'])
        if isinstance(got, tuple) and got[0] == 'adt':
            got = count_of(c['val'])
        self.rep.ob(f"E3|{c['def']}", got == want, f"constant {c['def']} = {got!r}, {what} requires {want!r}", rule='E3-const')


def fold7(k):
    """offset (mod 7) folded into [-3, 3]: positive = move back, negative = move forward"""
    k %= 7
    return k if k <= 3 else k - 7


def offset_table(t: T, pattern, rule_name, offset_of_index, reachable, folded):
    """tables of (fn, days): entry i must subtract offset_of_index(i) days (folded to [-3,3] for rounding);
    `current_date` is allowed only with offset 0.  unreachable slots are not constrained here (E1 proves the index range)."""
    name, tab = t.table(pattern, optional=True)
    if name is None:
        return
    if not isinstance(tab, list) or len(tab) != 8:
        t.rep.ob(f"E3|{name}|len", False, f"table {name}: expected 8 entries", rule='E3-table')
        return
    if not all(isinstance(e, tuple) and len(e) == 2 and isinstance(e[1], int) for e in tab):
        # a table of another shape under the same name (plain offsets, ...): this rule does not apply, the unit is
        # decided by its E1 contract
        t.rep.notes.append(f"table {name} is not a table of (function, days) pairs: decided by the E1 contract of the unit alone")
        return
    for i in reachable:
        fn, off = tab[i]
        want = offset_of_index(i)
        want = fold7(want) if folded else want % 7
        fname = fn[1] if isinstance(fn, tuple) else str(fn)
        if fname.endswith('current_date'):
            ok = want == 0
        elif fname.endswith('sub_to_date'):
            ok = off == want
        else:
            ok = False
        t.rep.ob(f"E3|{name}|[{i}]", ok, f"table {name}[{i}] = ({fname}, {off}), rule ({rule_name}) requires moving back {want} day(s)", rule='E3-offset-table')
    t.rep.sample({'table': name, 'rule': rule_name, 'entries': len(reachable)})


# ----------------------------------------------------------------------------------------------------------------
def c01_tables(rep, facts):
    t = T(rep, facts)
    name, tab = t.table(r'days_of_month::DAY_TABLE$')
    t.entries(name + '[common]', tab[0], [0] + MONTH_LEN, 'Gregorian month lengths, common year')
    leap = [0] + MONTH_LEN
    leap[2] = 29
    t.entries(name + '[leap]', tab[1], leap, 'Gregorian month lengths, leap year (only February differs)')
    name, tab = t.table(r'common::SUM_OF_DAYS_TABLE$')
    for row, ml, tag in ((0, MONTH_LEN, 'common'), (1, leap[1:], 'leap')):
        pre = [sum(ml[:i]) for i in range(12)]
        t.entries(f"{name}[{tag}]", tab[row], pre, 'prefix sums of the month lengths')
    t.scalar(r'common::UNIX_EPOCH_JULIAN$', 2440588, 'Julian day of 1970-01-01')
    t.scalar(r'common::DATE_MIN_JULIAN$', 1721426, 'Julian day of 0001-01-01')
    t.scalar(r'common::DATE_MAX_JULIAN$', 5373484, 'Julian day of 9999-12-31')
    t.scalar(r'common::DATE_MIN_YEAR$', 1, 'first supported year')
    t.scalar(r'common::DATE_MAX_YEAR$', 9999, 'last supported year')
    c = find_const(facts, r'date::UNIX_EPOCH_DOW$')
    rep.ob('E3|date::UNIX_EPOCH_DOW', py(c['val'])[1] == 'Thursday', f"1970-01-01 must be a Thursday, constant is {py(c['val'])}", rule='E3-const')
    # WeekDay / Month enums and their from-index tables
    name, tab = t.table(r'WeekDay as std::convert::From<usize>>::from::WEEKDAY_TABLE$')
    t.entries(name, [(x[1], x[2]) for x in tab], [(DAYS[i], i + 1) for i in range(7)], 'entry k is the k+1-th weekday, Sunday = 1')
    name, tab = t.table(r'Month as std::convert::From<usize>>::from::MONTH_TABLE$')
    t.entries(name, [(x[1], x[2]) for x in tab], [(MONTHS[i], i + 1) for i in range(12)], 'entry k is month k+1')


def range_constants(rep, facts):
    """MIN/MAX/ZERO of every type and the range constants equal the documented limits (C02)"""
    t = T(rep, facts)
    D = 86_400_000_000
    t.scalar(r'^date::Date::MIN$', -719162, '0001-01-01')
    t.scalar(r'^date::Date::MAX$', 2932896, '9999-12-31')
    t.scalar(r'^time::Time::ZERO$', 0, '00:00:00')
    t.scalar(r'^time::Time::MAX$', D - 1, '23:59:59.999999')
    t.scalar(r'^timestamp::Timestamp::MIN$', -719162 * D, '0001-01-01 00:00:00')
    t.scalar(r'^timestamp::Timestamp::MAX$', 2932897 * D - 1, '9999-12-31 23:59:59.999999')
    t.scalar(r'^interval::IntervalYM::MIN$', -2_136_000_000, '-178000000-00')
    t.scalar(r'^interval::IntervalYM::MAX$', 2_136_000_000, '+178000000-00')
    t.scalar(r'^interval::IntervalYM::ZERO$', 0, 'zero')
    t.scalar(r'^interval::IntervalDT::MIN$', -100_000_000 * D, '-100000000 00:00:00')
    t.scalar(r'^interval::IntervalDT::MAX$', 100_000_000 * D, '+100000000 00:00:00')
    t.scalar(r'^interval::IntervalDT::ZERO$', 0, 'zero')
    t.scalar(r'common::TIMESTAMP_MIN$', -719162 * D, 'timestamp lower limit')
    t.scalar(r'common::TIMESTAMP_MAX$', 2932897 * D - 1, 'timestamp upper limit')
    t.scalar(r'common::USECONDS_PER_DAY$', D, 'microseconds per day')
    t.scalar(r'common::USECONDS_PER_HOUR$', 3_600_000_000, 'microseconds per hour')
    t.scalar(r'common::USECONDS_PER_MINUTE$', 60_000_000, 'microseconds per minute')
    t.scalar(r'common::USECONDS_PER_SECOND$', 1_000_000, 'microseconds per second')
    t.scalar(r'common::USECONDS_MAX$', 999_999, 'largest sub-second value')
    t.scalar(r'interval::INTERVAL_MAX_MONTH$', 2_136_000_000, 'year-month interval limit in months')
    t.scalar(r'interval::INTERVAL_MAX_USECONDS$', 100_000_000 * D, 'day-time interval limit in microseconds')
    if any(d == 'oracle::Date::MAX' for d in facts.consts):
        t.scalar(r'^oracle::Date::MIN$', -719162 * D, '0001-01-01 00:00:00')
        t.scalar(r'^oracle::Date::MAX$', 2932897 * D - 1_000_000, '9999-12-31 23:59:59')


def c04_tables(rep, facts):
    t = T(rep, facts)
    for pat, n, fmt in ((r'format::MONTH_TABLE$', 13, '%02d'), (r'format::HOUR_TABLE$', 25, '%02d'), (r'format::DAY_TABLE$', 32, '%02d'),
                        (r'format::MINUTE_SECOND_TABLE$', 61, '%02d'), (r'format::DAY_OF_YEAR_TABLE$', 367, '%03d'),
                        (r'format::DAY_OF_WEEK_TABLE$', 8, '%d')):
        name, tab = t.table(pat)
        t.entries(name, tab, [fmt % i for i in range(n)], f"decimal rendering {fmt} of the index")
    name, tab = t.table(r'format::WEEK_OF_MONTH_TABLE$')
    t.entries(name, tab, [None] + ['%d' % ((i - 1) // 7 + 1) for i in range(1, 32)], 'week of month = (day-1)/7 + 1')
    name, tab = t.table(r'format::WEEK_OF_YEAR_TABLE$')
    t.entries(name, tab, [None] + ['%02d' % ((i - 1) // 7 + 1) for i in range(1, 367)], 'week of year = (day_of_year-1)/7 + 1, two digits')
    name, tab = t.table(r'format::YEAR_MODIFIER$')
    t.entries(name, tab, [10, 100, 1000, 10000], '10^(k+1)')
    name, tab = t.table(r'format::FRACTION_FACTOR$')
    want = ['1000000.0', '100000.0', '10000.0', '1000.0', '100.0', '10.0', '1.0', '0.1', '0.01', '0.001']
    t.entries(name, [x[1] for x in tab], want, '10^(6-k) as the nearest double')
    # name tables: rows in NameStyle discriminant order Capital, Lower, Upper, AbbrCapital, AbbrLower, AbbrUpper
    styles = name_style_order(facts)
    rep.ob('E3|format::NameStyle|order', styles == ['Capital', 'Lower', 'Upper', 'AbbrCapital', 'AbbrLower', 'AbbrUpper'],
           f"NameStyle discriminant order is {styles}", rule='E3-const')
    for pat, names in ((r'format::MONTH_NAME_TABLE$', MONTHS), (r'format::DAY_NAME_TABLE$', DAYS)):
        name, tab = t.table(pat)
        rows = {
            'Capital': names, 'Lower': [n.lower() for n in names], 'Upper': [n.upper() for n in names],
            'AbbrCapital': [n[:3] for n in names], 'AbbrLower': [n[:3].lower() for n in names], 'AbbrUpper': [n[:3].upper() for n in names],
        }
        if len(tab) != 6:
            rep.ob(f"E3|{name}|rows", False, f"{name}: expected 6 style rows", rule='E3-table')
            continue
        for i, st in enumerate(styles[:6]):
            t.entries(f"{name}[{st}]", tab[i], rows.get(st, []), f"English names in style {st}")


def name_style_order(facts):
    for n, ty in facts.types.items():
        if ty.get('k') == 'adt' and ty.get('def') == 'format::NameStyle':
            vs = sorted(ty['variants'], key=lambda v: v['discr'])
            return [v['name'] for v in vs]
    raise AnalysisIncomplete('type format::NameStyle not found')


def c10_tables(rep, facts):
    t = T(rep, facts)
    name, tab = t.table(r'trunc_quarter::QUARTER_FIRST_MONTH$', optional=True)
    if name is not None:
        t.entries(name, tab, [3 * (i // 3) + 1 for i in range(12)], "first month of the quarter of month i+1")
    # index = weekday number 1..=7 (Sunday = 1); ISO weeks start on Monday
    offset_table(t, r'trunc_iso_week::ISO_WEEK_TABLE$', 'days back to Monday', lambda w: (w - 2) % 7, range(1, 8), folded=False)
    offset_table(t, r'date::ISO_YEAR_TABLE$', 'nearest Monday to 1 January = first ISO week (weekday of 1 Jan -> offset folded to [-3,3])', lambda w: (w - 2) % 7, range(1, 8), folded=True)


def c11_tables(rep, facts):
    t = T(rep, facts)
    offset_table(t, r'round_iso_week::ISO_WEEK_TABLE$', 'days back to Monday, from Friday on forward', lambda w: (w - 2) % 7, range(1, 8), folded=True)
    offset_table(t, r'round_sunday_start_week::SUNDAY_START_WEEK_TABLE$', 'days back to Sunday, from Thursday on forward', lambda w: (w - 1) % 7, range(1, 8), folded=True)
    offset_table(t, r'round_week_internal::WEEK_TABLE$', 'index = days since the week start (0..6), fifth day rounds up', lambda k: k % 7, range(0, 7), folded=True)
    offset_table(t, r'round_month_start_week_internal::MONTH_START_WEEK_TABLE$', 'index = day of month mod 7, week starts on days 1,8,15,..', lambda k: (k - 1) % 7, range(0, 7), folded=True)
    # quarter rounding: "up from the 16th of the quarter's second month"
    name, rnd = t.table(r'round_quarter::QUARTER_ROUND_MONTH$', optional=True)
    name2, trn = t.table(r'round_quarter::QUARTER_TRUNC_MONTH$', optional=True)

    def spec(month, late):
        q0 = 3 * ((month - 1) // 3) + 1          # first month of the quarter
        second = q0 + 1
        up = month > second or (month == second and late)
        m = q0 + 3 if up else q0
        return 1 if m == 13 else m
    if name is not None:
        t.entries(name, rnd, [spec(m, True) for m in range(1, 13)], "day >= 16: up iff month >= second month of the quarter")
    if name2 is not None:
        t.entries(name2, trn, [spec(m, False) for m in range(1, 13)], "day < 16: up iff month > second month of the quarter")
    t.scalar(r'date::ROUNDS_UP_DAY$', 16, 'the 16th is the first day that rounds a month up')


SERDE_LAYOUTS = {
    'DATE_FORMATTER': 'YYYY-MM-DD',
    'TIME_FORMATTER': 'HH24:MI:SS.FF6',
    'TIMESTAMP_FORMATTER': 'YYYY-MM-DD HH24:MI:SS.FF6',
    'INTERVAL_YM_FORMATTER': 'YYYY-MM',
    'INTERVAL_DT_FORMATTER': 'DD HH24:MI:SS.FF6',
    'ORACLE_DATE_FORMATTER': 'YYYY-MM-DD HH24:MI:SS',
}


def c06_widths(rep, facts):
    """the parser reads at most as many digits per field as the formatter can write for the type, and exactly
    the documented widths (adjacent fields are split by these widths)"""
    want = {
        'YEAR_MAX_LENGTH': {'interval::IntervalYM': 9, None: 4},      # 178000000 years
        'MONTH_MAX_LENGTH': {None: 2},
        'DAY_MAX_LENGTH': {'interval::IntervalDT': 9, None: 2},       # 100000000 days
        'HOUR_MAX_LENGTH': {None: 2}, 'MINUTE_MAX_LENGTH': {None: 2}, 'SECOND_MAX_LENGTH': {None: 2},
        'DAY_OF_YEAR_MAX_LENGTH': {None: 3},
    }
    seen = 0
    for c in facts.dtf_consts:
        w = want.get(c['name'])
        if w is None:
            continue
        seen += 1
        v = c['val'].get('v')
        exp = w.get(c['self_ty'], w[None])
        rep.ob(f"E3|{c['name']}|{c['self_ty']}", v == exp, f"{c['name']} for {c['self_ty']} is {v}; the widest value the formatter writes for that field has {exp} digits", rule='E3-width')
    if seen < 7 * 5:
        raise AnalysisIncomplete(f"width rule saw only {seen} associated constants")
    rep.sample({'rule': 'field widths reader = writer', 'constants': seen})
