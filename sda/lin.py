"""Numeric abstract domain of engine E1 (DESIGN.md section 2).

* Linear forms  c0 + sum(ci * si)  over *symbols*.
* Symbols carry a static interval (from their type / origin); a state refines them
  (interval and congruence).  `Div(f, c)` for a positive constant c is a hash-consed
  symbol; `Rem(f, c)` is never a symbol: it is the form  f - c*Div(f, c)  so that
  x - (x / c) * c  *is*  Rem(x, c)  after normalisation.
* A state keeps a list of relational facts  F <= 0  (F a linear form) and runs interval
  bound propagation over them and over the definitional facts of every Div symbol
  ( -(c-1) <= f - c*q <= c-1, one-sided when the sign of f is known ).

No solver is involved: everything is interval arithmetic, propagation to a bounded
fixpoint and syntactic normalisation of forms.
"""
from __future__ import annotations

import math

INF = 1 << 200  # larger than any i128 magnitude; used as "unbounded"


def cdiv(a: int, b: int) -> int:
    """ceil(a / b) for b > 0"""
    return -((-a) // b)


def fdiv(a: int, b: int) -> int:
    return a // b


def tdiv(a: int, b: int) -> int:
    """Rust's truncating division"""
    q = abs(a) // abs(b)
    return q if (a >= 0) == (b > 0) else -q


def trem(a: int, b: int) -> int:
    return a - b * tdiv(a, b)


class Form:
    """Immutable linear form.  terms: tuple of (sym, coeff) sorted by sym, coeff != 0."""
    __slots__ = ('c', 'terms', '_h')

    def __init__(self, c=0, terms=()):
        self.c = c
        self.terms = terms
        self._h = None

    @staticmethod
    def const(c):
        return Form(c, ())

    @staticmethod
    def sym(s, k=1):
        return Form(0, ((s, k),)) if k else Form(0, ())

    def is_const(self):
        return not self.terms

    def key(self):
        return (self.c, self.terms)

    def __hash__(self):
        if self._h is None:
            self._h = hash((self.c, self.terms))
        return self._h

    def __eq__(self, o):
        return isinstance(o, Form) and self.c == o.c and self.terms == o.terms

    def add(self, o: 'Form') -> 'Form':
        if not o.terms:
            return Form(self.c + o.c, self.terms) if o.c else self
        if not self.terms:
            return Form(self.c + o.c, o.terms)
        a, b = self.terms, o.terms
        i = j = 0
        na, nb = len(a), len(b)
        out = []
        while i < na and j < nb:
            sa, ka = a[i]
            sb, kb = b[j]
            if sa == sb:
                v = ka + kb
                if v:
                    out.append((sa, v))
                i += 1
                j += 1
            elif sa < sb:
                out.append(a[i])
                i += 1
            else:
                out.append(b[j])
                j += 1
        if i < na:
            out.extend(a[i:])
        elif j < nb:
            out.extend(b[j:])
        return Form(self.c + o.c, tuple(out))

    def sub(self, o: 'Form') -> 'Form':
        if not o.terms:
            return Form(self.c - o.c, self.terms) if o.c else self
        a, b = self.terms, o.terms
        i = j = 0
        na, nb = len(a), len(b)
        out = []
        while i < na and j < nb:
            sa, ka = a[i]
            sb, kb = b[j]
            if sa == sb:
                v = ka - kb
                if v:
                    out.append((sa, v))
                i += 1
                j += 1
            elif sa < sb:
                out.append(a[i])
                i += 1
            else:
                out.append((sb, -kb))
                j += 1
        if i < na:
            out.extend(a[i:])
        while j < nb:
            sb, kb = b[j]
            out.append((sb, -kb))
            j += 1
        return Form(self.c - o.c, tuple(out))

    def scale(self, k: int) -> 'Form':
        if k == 0:
            return Form(0, ())
        if k == 1:
            return self
        return Form(self.c * k, tuple((s, c * k) for s, c in self.terms))

    def neg(self):
        return self.scale(-1)

    def addc(self, c):
        return Form(self.c + c, self.terms)

    def coeff(self, s):
        for t, k in self.terms:
            if t == s:
                return k
        return 0

    def syms(self):
        return [s for s, _ in self.terms]

    def __repr__(self):
        return show_form(self)


# --------------------------------------------------------------------------- symbols

class SymInfo:
    __slots__ = ('name', 'lo', 'hi', 'kind', 'data', 'mod', 'rem', 'taint', 'vals')

    def __init__(self, name, lo, hi, kind='var', data=None, mod=1, rem=0, taint=frozenset()):
        self.name = name
        self.lo = lo
        self.hi = hi
        self.kind = kind
        self.data = data
        self.mod = mod
        self.rem = rem
        self.taint = taint
        self.vals = None


class SymTab:
    """Global symbol table for one analysis run (symbols are never deleted)."""

    def __init__(self):
        self.syms: list[SymInfo] = []
        self.cons = {}
        self.users = {}     # symbol -> Div symbols whose dividend mentions it

    def new(self, name, lo, hi, kind='var', data=None, mod=1, rem=0, taint=frozenset()):
        self.syms.append(SymInfo(name, lo, hi, kind, data, mod, rem, taint))
        return len(self.syms) - 1

    def info(self, s) -> SymInfo:
        return self.syms[s]

    def div(self, f: Form, c: int, lo, hi):
        """hash-consed Div(f, c) symbol, c > 0 constant"""
        k = ('div', f.key(), c)
        s = self.cons.get(k)
        if s is None:
            taint = frozenset()
            for t, _ in f.terms:
                taint |= self.syms[t].taint
            # NB: the symbol is shared by all paths: its static range must hold on every path (lo/hi are the
            # caller's type-derived bounds, never the current path's interval)
            s = self.new(f"({show_form(f)})/{c}", lo, hi, 'div', (f, c), taint=taint)
            self.cons[k] = s
            for t, _ in f.terms:
                self.users.setdefault(t, []).append(s)
        return s

    def opaque(self, tag, key, lo, hi, name=None, taint=frozenset(), mod=1, rem=0):
        k = ('op', tag, key)
        s = self.cons.get(k)
        if s is None:
            s = self.new(name or f"{tag}{key}", lo, hi, 'opaque', (tag, key), taint=taint, mod=mod, rem=rem)
            self.cons[k] = s
        return s


SYMTAB = SymTab()


def show_form(f: Form) -> str:
    parts = []
    for s, k in f.terms:
        n = SYMTAB.syms[s].name if s < len(SYMTAB.syms) else f"s{s}"
        if k == 1:
            parts.append(f"+{n}")
        elif k == -1:
            parts.append(f"-{n}")
        else:
            parts.append(f"{'+' if k > 0 else '-'}{abs(k)}*{n}")
    if f.c or not parts:
        parts.append(f"{'+' if f.c >= 0 else '-'}{abs(f.c)}")
    s = ''.join(parts)
    return s[1:] if s.startswith('+') else s


# --------------------------------------------------------------------------- numeric state

class Infeasible(Exception):
    pass


class Num:
    """Path-local numeric knowledge: symbol refinements + relational facts."""
    __slots__ = ('lo', 'hi', 'cong', 'facts', 'neq', 'divs', 'nez', 'congf', 'remb', 'parent')

    def __init__(self):
        self.lo = {}
        self.hi = {}
        self.cong = {}     # sym -> (mod, rem)
        self.facts = []    # list of Form, each meaning F <= 0
        self.neq = {}      # sym -> frozenset of excluded values
        self.divs = set()  # Div symbols created on this path
        self.nez = []      # forms known to be != 0
        self.congf = []    # (form A without constant, m, r): A == r (mod m)
        self.remb = {}     # Div symbol q = Div(g, c) -> (lo, hi) bounds of its remainder g - c*q on this path
        self.parent = {}   # Div symbol q2 whose dividend is the remainder of q (plus a constant k) -> (q, k)

    def copy(self):
        n = Num()
        n.lo = dict(self.lo)
        n.hi = dict(self.hi)
        n.cong = dict(self.cong)
        n.facts = list(self.facts)
        n.neq = dict(self.neq)
        n.divs = set(self.divs)
        n.nez = list(self.nez)
        n.congf = list(self.congf)
        n.remb = dict(self.remb)
        n.parent = dict(self.parent)
        return n

    # ---- per-symbol bounds
    def slo(self, s):
        v = self.lo.get(s)
        return SYMTAB.syms[s].lo if v is None else v

    def shi(self, s):
        v = self.hi.get(s)
        return SYMTAB.syms[s].hi if v is None else v

    def scong(self, s):
        c = self.cong.get(s)
        if c is None:
            i = SYMTAB.syms[s]
            return (i.mod, i.rem)
        return c

    # ---- interval of a form
    def naive(self, f: Form):
        lo = hi = f.c
        for s, k in f.terms:
            a, b = self.slo(s), self.shi(s)
            if k > 0:
                lo += k * a if a > -INF else -INF * 4
                hi += k * b if b < INF else INF * 4
            else:
                lo += k * b if b < INF else -INF * 4
                hi += k * a if a > -INF else INF * 4
        return (max(lo, -INF), min(hi, INF))

    def sign_rem(self, g: Form, c: int, depth=0):
        """range of Rem(g, c) for c > 0 from the sign (and smallness) of g"""
        flo, fhi = self.rng(g, depth + 1, 1)
        lo = -(c - 1) if flo < 0 else 0
        hi = (c - 1) if fhi > 0 else 0
        if flo > -c and fhi < c:
            lo, hi = max(lo, flo), min(hi, fhi)
        return lo, hi

    def rem_bounds(self, q, depth=0):
        """stored bounds of the remainder of Div symbol q (initialised from the sign of the dividend)"""
        b = self.remb.get(q)
        if b is None:
            g, c = SYMTAB.syms[q].data
            b = self.sign_rem(g, c, depth)
            if q in self.divs:
                self.remb[q] = b
        return b

    def rem_range(self, f: Form, c: int, depth=0, fb=1):
        q = SYMTAB.cons.get(('div', f.key(), c))
        if q is not None and q in self.divs:
            return self.rem_bounds(q, depth)
        return self.sign_rem(f, c, depth)

    def rng(self, f: Form, depth=0, fb=1):
        """interval of f: naive evaluation, improved by folding  t*(g - c*Div(g,c))  into
        t*Rem(g,c) and by the relational facts (fb = how many fact applications may be chained)."""
        lo, hi = self.naive(f)
        if not f.terms:
            return lo, hi
        if depth < 6:
            for s, k in f.terms:
                info = SYMTAB.syms[s]
                if info.kind == 'div':
                    g, c = info.data
                    if (-k) % c == 0:
                        t = (-k) // c
                        rest = f.sub(g.sub(Form.sym(s, c)).scale(t))
                        rlo, rhi = self.rem_bounds(s, depth + 1)
                        l2, h2 = self.rng(rest, depth + 1, fb)
                        if t > 0:
                            l2, h2 = l2 + t * rlo, h2 + t * rhi
                        else:
                            l2, h2 = l2 + t * rhi, h2 + t * rlo
                        lo, hi = max(lo, l2), min(hi, h2)
        if fb > 0 and depth < 6 and self.facts:
            nf = None
            for F in self.facts:
                if not F.terms:
                    continue
                shared = False
                for s, _ in F.terms:
                    if f.coeff(s):
                        shared = True
                        break
                if not shared:
                    continue
                # F <= 0 and f = m*F + (f - m*F)  =>  f <= hi(f - m*F)
                for mult in self._mults(f, F):
                    d = f.sub(F.scale(mult))
                    if len(d.terms) < len(f.terms) + len(F.terms):
                        dl, dh = self.rng(d, depth + 1, fb - 1)
                        hi = min(hi, dh)
                if nf is None:
                    nf = f.neg()
                for mult in self._mults(nf, F):
                    d = nf.sub(F.scale(mult))
                    if len(d.terms) < len(f.terms) + len(F.terms):
                        dl, dh = self.rng(d, depth + 1, fb - 1)
                        lo = max(lo, -dh)
        return lo, hi

    @staticmethod
    def _mults(f: Form, F: Form):
        """positive multipliers m such that f - m*F cancels at least one symbol"""
        out = set()
        for s, k in F.terms:
            fk = f.coeff(s)
            if fk and (fk > 0) == (k > 0) and fk % k == 0:
                out.add(fk // k)
        return sorted(out)[:3]

    # ---- congruence of a form modulo m: returns residue or None
    def residue(self, f: Form, m: int, depth=0):
        r = self._residue(f, m)
        if r is not None or depth > 1 or not self.congf:
            return r
        for (A, m2, r2) in self.congf:
            if m2 % m != 0:
                continue
            for t in (1, -1):
                ok = True
                for s, k in A.terms:
                    if (f.coeff(s) - t * k) % m != 0:
                        ok = False
                        break
                if not ok:
                    continue
                rest = f.sub(A.scale(t))
                rr = self.residue(rest, m, depth + 1)
                if rr is not None:
                    return (rr + t * r2) % m
        return None

    def _residue(self, f: Form, m: int):
        r = f.c % m
        for s, k in f.terms:
            if k % m == 0:
                continue
            M, R = self.scong(s)
            if M > 1 and (k * M) % m == 0:
                r = (r + k * R) % m
                continue
            info = SYMTAB.syms[s]
            lo, hi = self.slo(s), self.shi(s)
            if lo == hi:
                r = (r + k * lo) % m
                continue
            return None
        return r

    # ---- refinement
    def set_lo(self, s, v):
        if v > self.slo(s):
            M, R = self.scong(s)
            if M > 1:
                v = v + ((R - v) % M)
            self.lo[s] = v
            if v > self.shi(s):
                raise Infeasible()
            return True
        return False

    def set_hi(self, s, v):
        if v < self.shi(s):
            M, R = self.scong(s)
            if M > 1:
                v = v - ((v - R) % M)
            self.hi[s] = v
            if v < self.slo(s):
                raise Infeasible()
            return True
        return False

    def set_cong(self, s, m, r):
        M, R = self.scong(s)
        if M == m and R == r % m:
            return
        if M > 1:
            # combine when one modulus divides the other, else keep the larger one if consistent
            if m % M == 0:
                if r % M != R:
                    raise Infeasible()
            elif M % m == 0:
                if R % m != r % m:
                    raise Infeasible()
                return
            else:
                return
        self.cong[s] = (m, r % m)
        lo, hi = self.slo(s), self.shi(s)
        if lo > -INF:
            self.lo[s] = lo + ((r - lo) % m)
        if hi < INF:
            self.hi[s] = hi - ((hi - r) % m)
        if self.slo(s) > self.shi(s):
            raise Infeasible()

    def _tighten(self, F: Form, changed_syms=None):
        """F <= 0: tighten every symbol of F from the bounds of the rest. returns changed"""
        changed = False
        if not F.terms:
            if F.c > 0:
                raise Infeasible()
            return False
        nterms = len(F.terms)
        for (s, k) in F.terms:
            if nterms == 1:
                others = F.c
            else:
                rest = F.sub(Form.sym(s, k))
                others = self.naive(rest)[0]
                if nterms > 2 and self._related(rest, F):
                    others = max(others, self.rng(rest, 1, 1)[0])
                if others <= -INF:
                    continue
            # k*s <= -others
            if k > 0:
                if self.set_hi(s, fdiv(-others, k)):
                    changed = True
                    if changed_syms is not None:
                        changed_syms.add(s)
            else:
                if self.set_lo(s, cdiv(others, -k)):
                    changed = True
                    if changed_syms is not None:
                        changed_syms.add(s)
        return changed

    def _related(self, rest: Form, skip: Form) -> bool:
        """is there another fact mentioning at least two symbols of rest?"""
        if len(self.facts) < 2:
            return False
        syms = {s for s, _ in rest.terms}
        for G in self.facts:
            if G is skip or len(G.terms) < 2:
                continue
            n = 0
            for s, _ in G.terms:
                if s in syms:
                    n += 1
                    if n >= 2:
                        return True
        return False

    def _rem_form(self, q):
        g, c = SYMTAB.syms[q].data
        return g.sub(Form.sym(q, c))

    def _div_facts(self, q):
        r = self._rem_form(q)
        rlo, rhi = self.rem_bounds(q)
        return [r.addc(-rhi), r.neg().addc(rlo)]

    def _set_remb(self, q, lo, hi):
        olo, ohi = self.rem_bounds(q)
        nlo, nhi = max(olo, lo), min(ohi, hi)
        if nlo > nhi:
            raise Infeasible()
        if (nlo, nhi) != (olo, ohi):
            self.remb[q] = (nlo, nhi)
            return True
        return False

    def refresh_div(self, q):
        """re-derive the remainder bounds of q from the sign of its dividend and from quotients taken of that
        very remainder; returns True if they changed"""
        g, c = SYMTAB.syms[q].data
        lo, hi = self.sign_rem(g, c)
        ch = self._set_remb(q, lo, hi)
        for q2, (pq, k) in self.parent.items():
            if pq != q:
                continue
            g2, c2 = SYMTAB.syms[q2].data
            r2lo, r2hi = self.rem_bounds(q2)
            qlo, qhi = self.slo(q2), self.shi(q2)
            # remainder(q) + k = c2*q2 + remainder(q2)
            if self._set_remb(q, c2 * qlo + r2lo - k, c2 * qhi + r2hi - k):
                ch = True
        return ch

    def propagate(self, seeds=None, budget=80):
        """bound propagation from the seed symbols over explicit facts and the definitional facts of the
        Div symbols created on this path; bounded work"""
        if seeds is None:
            seeds = set()
            for F in self.facts:
                for s, _ in F.terms:
                    seeds.add(s)
        queue = set(seeds)
        work = 0
        while queue and work < budget:
            s = queue.pop()
            ch = set()
            for F in self.facts:
                if F.coeff(s):
                    work += 1
                    self._tighten(F, ch)
            cands = []
            if s in self.divs:
                cands.append(s)
                par = self.parent.get(s)
                if par is not None:
                    cands.append(par[0])
            for q in SYMTAB.users.get(s, ()):
                if q in self.divs:
                    cands.append(q)
            for q in cands:
                work += 1
                if self.refresh_div(q):
                    ch.add(q)
                    par = self.parent.get(q)
                    if par is not None:
                        ch.add(par[0])
                for F in self._div_facts(q):
                    work += 1
                    self._tighten(F, ch)
            ch.discard(s)
            queue |= ch

    def note_div(self, q):
        """called when a Div symbol is created/used on this path"""
        if q in self.divs:
            return
        self.divs.add(q)
        g, c = SYMTAB.syms[q].data
        # is the dividend the remainder of another quotient of this path (plus a constant)?
        for s0, k0 in g.terms:
            if SYMTAB.syms[s0].kind == 'div' and s0 in self.divs and s0 != q:
                r = self._rem_form(s0)
                if g.terms == r.terms:
                    self.parent[q] = (s0, g.c - r.c)
                    break
        self.remb[q] = self.sign_rem(g, c)
        ch = set()
        for F in self._div_facts(q):
            self._tighten(F, ch)
        if ch:
            self.propagate(ch)

    def _fact_about_remainder(self, F: Form):
        """an explicit fact that is exactly a bound on a remainder form updates the stored remainder bounds"""
        hit = None
        for q in self.divs:
            r = self._rem_form(q)
            if len(r.terms) != len(F.terms):
                continue
            if F.terms == r.terms:            # r - r.c + F.c <= 0
                if self._set_remb(q, -INF, r.c - F.c):
                    hit = q
            elif F.terms == tuple((s, -k) for s, k in r.terms):   # -(r - r.c) + F.c <= 0
                if self._set_remb(q, F.c + r.c, INF):
                    hit = q
        return hit

    def add_fact(self, F: Form):
        """assume F <= 0"""
        if not F.terms:
            if F.c > 0:
                raise Infeasible()
            return
        if len(F.terms) == 1:
            s, k = F.terms[0]
            ch = False
            if k > 0:
                ch = self.set_hi(s, fdiv(-F.c, k))
            else:
                ch = self.set_lo(s, cdiv(F.c, -k))
            if ch:
                self.propagate({s})
            return
        g = 0
        for _, k in F.terms:
            g = math.gcd(g, abs(k))
        if g > 1:
            F = Form(-fdiv(-F.c, g), tuple((s, k // g) for s, k in F.terms))
        if F not in self.facts:
            self.facts.append(F)
        ch = set()
        if self.divs:
            hit = self._fact_about_remainder(F)
            if hit is not None:
                ch.add(hit)
                par = self.parent.get(hit)
                if par is not None:
                    ch.add(par[0])
        self._tighten(F, ch)
        if ch:
            self.propagate(ch)
        # two facts that contradict each other directly (a - b <= 1 and a - b >= 2) do not move any symbol bound:
        # compare the new fact with the others
        if len(self.facts) > 1 and self.rng(F, 0, 1)[0] > 0:
            raise Infeasible()

    def note_equality(self, F: Form):
        """F == 0: a symbol with coefficient +-1 is congruent to the rest modulo the gcd of the rest"""
        mods = {abs(k) for _, k in F.terms if abs(k) > 1}
        for m in mods:
            A = Form(0, tuple((s, k) for s, k in F.terms if k % m != 0))
            if A.terms and len(A.terms) < len(F.terms):
                ent = (A, m, (-F.c) % m)
                if ent not in self.congf and len(self.congf) < 32:
                    self.congf.append(ent)
        for s, k in F.terms:
            if abs(k) != 1:
                continue
            g = 0
            for t, kk in F.terms:
                if t != s:
                    g = math.gcd(g, abs(kk))
            if g > 1:
                # k*s + rest = 0  =>  s = -k*rest ; rest = F.c (mod g)
                r = (-k * F.c) % g
                try:
                    self.set_cong(s, g, r)
                except Infeasible:
                    raise

    def exclude(self, s, v):
        """s != v"""
        lo, hi = self.slo(s), self.shi(s)
        if v < lo or v > hi:
            return
        if lo == hi:
            raise Infeasible()
        if v == lo:
            self.set_lo(s, v + 1)
            self.trim(s)
        elif v == hi:
            self.set_hi(s, v - 1)
            self.trim(s)
        else:
            cur = self.neq.get(s, frozenset())
            if len(cur) < 64:
                self.neq[s] = cur | {v}

    def trim(self, s):
        ex = self.neq.get(s)
        if not ex:
            return
        changed = True
        while changed:
            changed = False
            lo, hi = self.slo(s), self.shi(s)
            if lo in ex:
                self.set_lo(s, lo + 1)
                changed = True
            if hi in ex and hi != lo:
                self.set_hi(s, hi - 1)
                changed = True

    def note_nonzero(self, f: Form):
        if f not in self.nez and len(self.nez) < 64:
            self.nez.append(f)

    def rem_known_zero(self, f: Form) -> bool:
        """f is the remainder form g - c*Div(g, c) of a quotient of this path and g is a multiple of c"""
        for s, k in f.terms:
            info = SYMTAB.syms[s]
            if info.kind == 'div' and k == -info.data[1] and s in self.divs:
                g, c = info.data
                if f.add(Form.sym(s, c)) == g:
                    return self.residue(g, c) == 0
        return False

    def known_nonzero(self, f: Form) -> bool:
        if not self.nez:
            return False
        return f in self.nez or f.neg() in self.nez

    # ---- queries
    def rng2(self, f: Form):
        """deeper (costlier) evaluation used only where an obligation is being decided"""
        lo, hi = self.rng(f)
        l2, h2 = self.rng(f, 0, 2)
        return max(lo, l2), min(hi, h2)

    def le0(self, f: Form) -> bool:
        return self.rng(f)[1] <= 0 or self.rng(f, 0, 2)[1] <= 0

    def ge0(self, f: Form) -> bool:
        return self.rng(f)[0] >= 0 or self.rng(f, 0, 2)[0] >= 0

    def eq0(self, f: Form) -> bool:
        lo, hi = self.rng(f)
        if lo == 0 and hi == 0:
            return True
        if any(SYMTAB.syms[s].kind == 'div' for s, _ in f.terms):
            g = self.canon(f)
            if not g.terms and g.c == 0:
                return True
            if g != f:
                lo, hi = self.rng(g)
                return lo == 0 and hi == 0
        return False

    # ---- canonical form of quotients (used to decide equalities between differently written, equal expressions)
    def canon(self, f: Form, depth=0) -> Form:
        """rewrite every quotient symbol Div(g, c) of f by the rules
             Div(Div(x, a), c)  = Div(x, a*c)                              (truncating division nests)
             Div(c*T + r, c)    = T + Div(r, c)   if c*T + r and r have the same sign (both >= 0 or both <= 0 on this path)
           applied inside out; two expressions for the same quantity (running remainder, `%` chains, one division and a
           multiply-subtract, ...) end in the same combination of the same hash-consed symbols"""
        if depth > 8:
            return f
        out = Form(f.c, ())
        for s, k in f.terms:
            info = SYMTAB.syms[s]
            if info.kind == 'div' and info.data[1] > 0:
                out = out.add(self._canon_div(info.data[0], info.data[1], depth + 1).scale(k))
            else:
                out = out.add(Form.sym(s, k))
        return out

    def _canon_div(self, g: Form, c: int, depth) -> Form:
        if len(g.terms) == 1 and g.c == 0 and g.terms[0][1] == 1:
            inner = SYMTAB.syms[g.terms[0][0]]
            if inner.kind == 'div' and inner.data[1] > 0 and depth < 8:
                return self._canon_div(inner.data[0], inner.data[1] * c, depth + 1)
        g = self.canon(g, depth)
        if not g.terms:
            return Form.const(tdiv(g.c, c))
        if len(g.terms) == 1 and g.c == 0 and g.terms[0][1] == 1:
            inner = SYMTAB.syms[g.terms[0][0]]
            if inner.kind == 'div' and inner.data[1] > 0 and depth < 8:
                return self._canon_div(inner.data[0], inner.data[1] * c, depth + 1)
        lo, hi = self.rng(g, 0, 2)
        mult = tuple((s_, k) for s_, k in g.terms if k % c == 0)
        if mult and (lo >= 0 or hi <= 0) and depth < 8:
            rest = Form(g.c, tuple((s_, k) for s_, k in g.terms if k % c != 0))
            T = Form(0, tuple((s_, k // c) for s_, k in mult))
            if not rest.terms:
                k1, k0 = rest.c // c, rest.c % c
                if lo < 0 and k0:
                    k1 += 1
                return T.addc(k1)
            rl, rh = self.rng(rest, 0, 2)
            if (lo >= 0 and rl >= 0) or (hi <= 0 and rh <= 0):
                return T.add(self._canon_div(rest, c, depth + 1))
            # not all multiples at once (e.g. a remainder form u - D*q must stay together): one multiple at a time
            for (s_, k) in mult:
                one = Form.sym(s_, k)
                rest1 = g.sub(one)
                rl, rh = self.rng(rest1, 0, 2)
                if (lo >= 0 and rl >= 0) or (hi <= 0 and rh <= 0):
                    return Form.sym(s_, k // c).add(self._canon_div(rest1, c, depth + 1))
        q = SYMTAB.cons.get(('div', g.key(), c))
        if q is None:
            big = 1 << 127
            q = SYMTAB.div(g, c, -big, big)
        return Form.sym(q)
