"""Engine E2: call-graph / structural rules over the E0 facts (resolved callees, statics, closures)."""
from __future__ import annotations

import re

from .facts import AnalysisIncomplete
from .tables import SERDE_LAYOUTS


CONST_STRS = {}      # named string constants of the crate (filled by set_consts)


def set_consts(facts):
    CONST_STRS.clear()
    for c in facts.raw.get('consts', []):
        v = c.get('val') or {}
        if v.get('c') == 'str':
            CONST_STRS[c['def']] = v['v']


def const_str(a):
    if a.get('o') != 'const':
        return None
    if 'val' in a and a['val'].get('c') == 'str':
        return a['val']['v']
    if 'ref' in a:
        return CONST_STRS.get(a['ref'])
    return None


def str_locals(body):
    """locals that hold a constant string (assigned once from a literal / named constant, possibly re-borrowed)"""
    m = {}
    assigned = {}
    for bb in body['blocks']:
        for st in bb['stmts']:
            if st['s'] == 'assign' and not st['p']['p']:
                assigned[st['p']['l']] = assigned.get(st['p']['l'], 0) + 1
    for _ in range(3):
        for bb in body['blocks']:
            for st in bb['stmts']:
                if st['s'] != 'assign' or st['p']['p'] or assigned.get(st['p']['l']) != 1:
                    continue
                rv = st['rv']
                v = None
                if rv['r'] == 'use':
                    a = rv['a']
                    v = const_str(a)
                    if v is None and a['o'] in ('copy', 'move') and not a['p']['p']:
                        v = m.get(a['p']['l'])
                elif rv['r'] == 'ref' and all(e['k'] == 'deref' for e in rv['p']['p']):
                    v = m.get(rv['p']['l'])
                if v is not None:
                    m[st['p']['l']] = v
    return m


def callees(body):
    """resolved callees of a body: list of (key, def, local, const str args)"""
    out = []
    sl = str_locals(body)
    for bb in body['blocks']:
        t = bb['term']
        if t['t'] != 'call':
            continue
        c = t['callee']
        strs = []
        for a in t['args']:
            v = const_str(a)
            if v is None and a['o'] in ('copy', 'move') and not a['p']['p']:
                v = sl.get(a['p']['l'])
            if v is not None:
                strs.append(v)
        out.append({'key': c.get('key'), 'def': c.get('def'), 'decl': c.get('decl'), 'local': c.get('local', False),
                    'forward': c.get('forward'), 'strs': strs, 'sp': t['sp']})
    return out


def bodies_of(facts, pattern):
    rx = re.compile(pattern)
    return [b for k, b in facts.bodies.items() if rx.search(b['def']) and '::promoted[' not in k]


# ----------------------------------------------------------------------------------------------------------------
CLOCK_READERS = {
    'date::Date::now': 'Date::now',
    'timestamp::Timestamp::now': 'Timestamp::now',
    'oracle::Date::now': 'OracleDate::now',
    '<timestamp::Timestamp as std::convert::TryFrom<time::Time>>::try_from': 'TryFrom<Time> for Timestamp',
    '<oracle::Date as std::convert::TryFrom<time::Time>>::try_from': 'TryFrom<Time> for OracleDate',
    'format::Formatter::parse_internal::{closure#0}': 'the lazy get_now closure of the parser',
}


def clock_readers(rep, facts):
    """who-may-call: the functions that read the clock are exactly the documented ones"""
    set_consts(facts)
    readers = {}
    for k, b in facts.bodies.items():
        for c in callees(b):
            d = c['decl'] or c['def'] or ''
            if d.endswith('chrono::Local::now') or d == 'chrono::Local::now' or 'SystemTime::now' in d or 'Instant::now' in d or 'Utc::now' in d:
                readers.setdefault(b['def'], []).append(c['sp'])
    have_oracle = any(d.startswith('oracle::') for d in facts.items)
    for d, sps in sorted(readers.items()):
        rep.ob(f"E2|clock-reader|{d}", d in CLOCK_READERS, f"clock read in {d} @ {sps[0]}: not one of the documented readers", rule='E2-who-may-call')
    for d, nm in CLOCK_READERS.items():
        if d.startswith('oracle::') or 'oracle::Date' in d:
            if not have_oracle:
                continue
        rep.ob(f"E2|clock-reader-present|{d}", d in readers, f"{nm} ({d}) no longer reads the clock", rule='E2-who-may-call')
    # every reader uses the local calendar (naive_local), not UTC
    for d in readers:
        bs = [b for b in facts.bodies.values() if b['def'] == d]
        for b in bs:
            names = [(c['decl'] or c['def'] or '') for c in callees(b)]
            uses_local = any(n.endswith('naive_local') for n in names)
            uses_utc = any(n.endswith('naive_utc') or 'Utc::now' in n for n in names)
            rep.ob(f"E2|clock-local|{d}", uses_local and not uses_utc, f"{d}: the reading must be converted with naive_local (local date), calls: "
                   + ', '.join(n.split('::')[-1] for n in names if 'chrono' in n), rule='E2-clock-local')
    rep.sample({'rule': 'who-may-call chrono::Local::now', 'readers': sorted(readers)})


# ----------------------------------------------------------------------------------------------------------------
def serde_layouts(rep, facts):
    """the picture literal of each static formatter equals the layout in the statement; one closure per static"""
    set_consts(facts)
    found = {}
    for sd, s in facts.statics.items():
        name = sd.split('::')[-1]
        if name not in SERDE_LAYOUTS:
            continue
        body = facts.bodies.get(s['body'])
        if body is None:
            raise AnalysisIncomplete(f"static initialiser body of {sd} missing")
        closures = []
        for bb in body['blocks']:
            for st in bb['stmts']:
                if st['s'] == 'assign':
                    rv = st['rv']
                    if rv['r'] == 'cast' and rv.get('fn') and rv['fn'].get('c') == 'closure':
                        closures.append(rv['fn']['key'])
                    if rv['r'] == 'agg' and rv.get('kind') == 'closure':
                        closures.append(rv['key'])
                    if rv['r'] == 'use' and rv['a']['o'] == 'const' and 'val' in rv['a'] and rv['a']['val'].get('c') == 'closure':
                        closures.append(rv['a']['val']['key'])
        lits = []
        for ck in set(closures):
            cb = facts.bodies.get(ck)
            if cb is None:
                continue
            lits.extend(picture_literals(facts, cb, 0))
        found[name] = lits
        rep.ob(f"E2|serde-layout|{name}", lits == [SERDE_LAYOUTS[name]], f"static {sd} is built from picture(s) {lits}, the statement requires {SERDE_LAYOUTS[name]!r}", rule='E2-layout-literal')
    need = ['DATE_FORMATTER', 'TIME_FORMATTER', 'TIMESTAMP_FORMATTER', 'INTERVAL_YM_FORMATTER', 'INTERVAL_DT_FORMATTER']
    if 'oracle' in facts.features:
        need.append('ORACLE_DATE_FORMATTER')
    for n in need:
        if n not in found:
            raise AnalysisIncomplete(f"anchor missing: static {n}")
    rep.sample({'rule': 'serde layout literals', 'found': found})
    return found


def forwards_to_try_new(facts, body, depth):
    """the body hands a non-constant value (its parameter) to Formatter::try_new, directly or through local wrappers"""
    for c in callees(body):
        if (c['def'] or '').startswith('format::Formatter::try_new') and not c['strs']:
            return True
        if c['local'] and depth < 3 and not c['strs']:
            b2 = facts.bodies.get(c['key'])
            if b2 is not None and b2 is not body and forwards_to_try_new(facts, b2, depth + 1):
                return True
    return False


def picture_literals(facts, body, depth):
    """string literals (or named string constants) that reach Formatter::try_new from this body"""
    out = []
    for c in callees(body):
        if (c['def'] or '').startswith('format::Formatter::try_new'):
            out.extend(c['strs'])
        elif c['local'] and c['strs'] and depth < 3:
            b2 = facts.bodies.get(c['key'])
            if b2 is not None and forwards_to_try_new(facts, b2, depth + 1):
                out.extend(c['strs'])
        elif c['local'] and not c['strs'] and depth < 3 and '{closure' not in (c['key'] or ''):
            b2 = facts.bodies.get(c['key'])
            if b2 is not None and b2 is not body:
                out.extend(picture_literals(facts, b2, depth + 1))
    return out


STATIC_OF_TYPE = {
    'date::Date': 'DATE_FORMATTER', 'time::Time': 'TIME_FORMATTER', 'timestamp::Timestamp': 'TIMESTAMP_FORMATTER',
    'interval::IntervalYM': 'INTERVAL_YM_FORMATTER', 'interval::IntervalDT': 'INTERVAL_DT_FORMATTER', 'oracle::Date': 'ORACLE_DATE_FORMATTER',
}

# widest rendering of each token of the six layouts for an in-range value of the type
def layout_width(layout, tdef):
    toks = re.findall(r'YYYY|MM|DD|HH24|MI|SS|FF6|[-: .]', layout)
    if ''.join(toks) != layout:
        raise AnalysisIncomplete(f"layout {layout!r} not tokenised by the reference grammar")
    w = 0
    for t in toks:
        if t == 'YYYY':
            w += 9 if tdef == 'interval::IntervalYM' else 4      # 178000000 years
        elif t == 'DD':
            w += 9 if tdef == 'interval::IntervalDT' else 2      # 100000000 days
        elif t == 'FF6':
            w += 6
        elif t in ('MM', 'HH24', 'MI', 'SS'):
            w += 2
        else:
            w += 1
    if tdef.startswith('interval::'):
        w += 1          # sign
    return w


def serde_capacity(rep, facts):
    cap = None
    for n, t in facts.types.items():
        m = re.match(r'stack_buf::StackStr<(\d+)>$', n)
        if m:
            cap = int(m.group(1))
    if cap is None:
        raise AnalysisIncomplete('anchor missing: the StackStr<N> buffer type of the serde impls')
    for tdef, st in STATIC_OF_TYPE.items():
        if tdef == 'oracle::Date' and 'oracle' not in facts.features:
            continue
        w = layout_width(SERDE_LAYOUTS[st], tdef)
        rep.ob(f"E2|serde-capacity|{tdef}", w <= cap, f"layout {SERDE_LAYOUTS[st]!r} renders up to {w} bytes for {tdef}, buffer holds {cap}", rule='E2-capacity')
    rep.sample({'rule': 'StackStr capacity', 'capacity': cap})


# ----------------------------------------------------------------------------------------------------------------
def trait_item(defpath):
    m = re.match(r'^<([\w:]+) as (Trunc|Round)>::(\w+)$', defpath)
    return m.groups() if m else None


INTERNAL_TWIN = {'round_week': 'date::Date::round_week_internal', 'round_month_start_week': 'date::Date::round_month_start_week_internal'}


def delegation(rep, facts):
    """Timestamp units delegate to the Date method of the same trait item, OracleDate to the Timestamp one"""
    set_consts(facts)
    n = 0
    for k, b in facts.bodies.items():
        ti = trait_item(b['def'])
        if ti is None or '::promoted[' in k:
            continue
        ty, tr, item = ti
        if ty == 'timestamp::Timestamp':
            inner = 'date::Date'
        elif ty == 'oracle::Date':
            inner = 'timestamp::Timestamp'
        else:
            continue
        called = []
        for c in callees(b):
            for cand in (c['def'], c.get('forward')):
                t2 = trait_item(cand or '')
                if t2 and t2[0] == inner:
                    called.append(t2)
            if c['def'] in INTERNAL_TWIN.values() and inner == 'date::Date':
                called.append(('date::Date', 'Round', [k2 for k2, v in INTERNAL_TWIN.items() if v == c['def']][0]))
        n += 1
        ok = all(t2[1] == tr and t2[2] == item for t2 in called)
        rep.ob(f"E2|delegation|{b['def']}", ok, f"{b['def']} calls {[f'<{a} as {x}>::{y}' for a, x, y in called]}: a delegating unit must call the same trait item of {inner}", rule='E2-delegation')
        if ty == 'oracle::Date':
            # conversions back must be the flooring From<Timestamp>
            conv = [c for c in callees(b) if (c.get('forward') or '').startswith('<oracle::Date as std::convert::From<timestamp::Timestamp>>::from')
                    or (c['def'] or '').startswith('<oracle::Date as std::convert::From<timestamp::Timestamp>>::from')]
            if called:
                rep.ob(f"E2|delegation-floor|{b['def']}", len(conv) >= 1, f"{b['def']} must convert the Timestamp result with From<Timestamp> (floor to the second)", rule='E2-delegation')
    if n < 24:
        raise AnalysisIncomplete(f"delegation rule matched only {n} Trunc/Round methods of Timestamp/OracleDate")
    # arithmetic delegation of OracleDate
    pairs = {
        'oracle::Date::add_interval_dt': 'timestamp::Timestamp::add_interval_dt',
        'oracle::Date::add_interval_ym': 'timestamp::Timestamp::add_interval_ym',
        'oracle::Date::add_time': 'timestamp::Timestamp::add_time',
        'oracle::Date::sub_time': 'timestamp::Timestamp::sub_time',
        'oracle::Date::sub_timestamp': 'timestamp::Timestamp::sub_timestamp',
        'oracle::Date::last_day_of_month': 'timestamp::Timestamp::last_day_of_month',
        'oracle::Date::extract': 'timestamp::Timestamp::extract',
    }
    for d, want in pairs.items():
        bs = [b for b in facts.bodies.values() if b['def'] == d]
        if not bs:
            if 'oracle' in facts.features:
                raise AnalysisIncomplete(f"anchor missing: {d}")
            continue
        cs = [c['def'] for c in callees(bs[0]) if c['local']]
        rep.ob(f"E2|delegation|{d}", want in cs, f"{d} must delegate to {want}; calls {cs}", rule='E2-delegation')
    rep.sample({'rule': 'delegation by resolved callee identity', 'methods': n})
