"""Engine E1: contract-checking abstract interpreter over monomorphic MIR (DESIGN.md section 2).

Forward, inter-procedural (calls analysed inline), path-sensitive: a state is forked at
every branch whose condition is not decided, and states are joined only at the heads of
loops that could not be unrolled within a small bound.  No solver; see lin.py for the
numeric domain.  Nothing of the target crate is executed.
"""
from __future__ import annotations

import json
import sys

from . import pp
from .facts import AnalysisIncomplete, Facts, cfg_info, liveness
from .lin import INF, SYMTAB, Form, Infeasible, Num, tdiv, trem
from .values import (UNINIT, UNIT, VAdt, VArray, VBool, VClosure, VFloat, VFn, VInt, VOpaque, VRef, VSlice,
                     VTuple, Val)

UNROLL = 14          # loop iterations explored path-wise before switching a loop to join mode
HEAD_VISITS = 200    # ... or path states reaching one loop head within one activation (today's tree: at most 27)
MAX_LOOP_PASSES = 12
WIDEN_AFTER = 2
THRESHOLDS = [-1, 0, 1, 2, 4, 9, 10, 11, 12, 31, 32, 36, 59, 60, 99, 255, 256, 366, 9999, 65535,
              (1 << 31) - 1, (1 << 32) - 1, (1 << 63) - 1, (1 << 64) - 1]
NEG_THRESHOLDS = [1, 0, -1, -9999, -(1 << 31), -(1 << 63)]


FN_TRAIT_CALLS = ('std::ops::FnOnce::call_once', 'std::ops::FnMut::call_mut', 'std::ops::Fn::call')


class NeedJoin(Exception):
    def __init__(self, key, head):
        self.key = key
        self.head = head


class State:
    """frames are copy-on-write: a copied state shares the per-frame dicts until one side writes"""
    __slots__ = ('frames', 'objs', 'num', 'ids', 'notes', 'stack', 'owned')

    def __init__(self):
        self.frames = {}
        self.objs = {}
        self.num = Num()
        self.ids = [0]            # shared counter (list so that forks keep allocating unique ids)
        self.notes = {}
        self.stack = ()
        self.owned = set()

    def copy(self):
        s = State()
        s.frames = dict(self.frames)
        self.owned = set()
        s.owned = set()
        s.objs = dict(self.objs)
        s.num = self.num.copy()
        s.ids = self.ids
        s.notes = dict(self.notes)
        s.stack = self.stack
        return s

    def wframe(self, fid):
        """writable dict of a frame"""
        if fid not in self.owned:
            self.frames[fid] = dict(self.frames[fid])
            self.owned.add(fid)
        return self.frames[fid]

    def new_id(self):
        self.ids[0] += 1
        return self.ids[0]

    def note_add(self, k, v=1):
        self.notes[k] = self.notes.get(k, 0) + v


class Obl:
    __slots__ = ('kind', 'fn', 'bb', 'desc', 'span', 'visits', 'fails', 'sample', 'roots')

    def __init__(self, kind, fn, bb, desc, span):
        self.kind = kind
        self.fn = fn
        self.bb = bb
        self.desc = desc
        self.span = span
        self.visits = 0
        self.fails = 0
        self.sample = None
        self.roots = set()


class Interp:
    def __init__(self, facts: Facts, spec, models):
        self.facts = facts
        self.spec = spec
        self.models = models
        self.obls = {}
        self.unmodelled = {}
        self.ext_fallback = {}
        self.loop_mode = {}
        self.cfg_cache = {}
        self.steps = 0
        self.steps_root = 0
        self.step_budget = 1_500_000
        self.root = None
        self.const_cache = {}
        self.events = []       # (kind, data) contract-relevant events of the current root
        self.trace = False
        self.max_states = 0
        self.cur_site = (0, '')
        self.cur_fn = ''
        self.merge_k = 8

    # ------------------------------------------------------------------ obligations
    def oblige(self, kind, fn, bb, desc, span, ok, st: State, detail=''):
        k = (kind, fn, bb, desc)
        o = self.obls.get(k)
        if o is None:
            o = self.obls[k] = Obl(kind, fn, bb, desc, span)
        o.visits += 1
        o.roots.add(self.root)
        if not ok:
            o.fails += 1
            if o.sample is None:
                o.sample = {'root': self.root, 'chain': [k for _, k in st.stack], 'detail': detail}
        return ok

    # ------------------------------------------------------------------ type helpers
    def irange(self, ty):
        r = self.facts.int_range(ty)
        if r is None:
            raise AnalysisIncomplete(f"not an integer type: {ty}")
        return r

    def fresh_int(self, st: State, ty, name, lo=None, hi=None, taint=frozenset(), mod=1, rem=0):
        tlo, thi = self.irange(ty)
        lo = tlo if lo is None else max(lo, tlo)
        hi = thi if hi is None else min(hi, thi)
        s = SYMTAB.new(f"{name}#{len(SYMTAB.syms)}", lo, hi, 'var', None, mod, rem, taint)
        return VInt(Form.sym(s), ty)

    def cint(self, v, ty):
        return VInt(Form.const(v), ty)

    def top(self, st: State, ty: str, name='top', depth=0, assume_inv=True) -> Val:
        """an arbitrary value of the given type (with the type invariant when assume_inv)"""
        sp = self.spec.top_override(self, st, ty, name, assume_inv)
        if sp is not None:
            return sp
        t = self.facts.types.get(ty)
        if t is None:
            r = self.facts.int_range(ty)
            if r is not None:
                return self.fresh_int(st, ty, name) if ty != 'bool' else self.unknown_bool()
            return VOpaque(ty)
        k = t['k']
        if k == 'int' or k == 'char':
            return self.fresh_int(st, ty, name)
        if k == 'bool':
            return self.unknown_bool()
        if k == 'float':
            return VFloat(None, ('param', name))
        if k == 'tuple':
            return VTuple([self.top(st, e, f"{name}.{i}", depth + 1, assume_inv) for i, e in enumerate(t['elems'])])
        if k == 'adt':
            if depth > 6:
                return VOpaque(ty)
            if t['adt'] == 'enum' or t['local']:
                vs = {}
                for v in t['variants']:
                    vs[v['idx']] = tuple(self.top(st, f['ty'], f"{name}.{f['name']}", depth + 1, assume_inv) for f in v['fields'])
                if not vs:
                    return VOpaque(ty)
                return VAdt(ty, vs)
            return VOpaque(ty)
        if k == 'ref' or k == 'rawptr':
            to = t['to']
            tt = self.facts.types.get(to, {})
            if tt.get('k') == 'str' or (tt.get('k') == 'slice' and tt.get('elem') == 'u8'):
                oid = st.new_id()
                ln = self.fresh_int(st, 'usize', f"len({name})", 0, (1 << 63) - 1)
                return VSlice(('obj', oid), Form.const(0), ln.form, ('bytes', 0, 255), 'u8')
            if tt.get('k') == 'slice':
                oid = st.new_id()
                ln = self.fresh_int(st, 'usize', f"len({name})", 0, (1 << 63) - 1)
                return VSlice(('obj', oid), Form.const(0), ln.form, ('top', tt['elem']), tt['elem'])
            oid = st.new_id()
            st.objs[oid] = self.top(st, to, f"*{name}", depth + 1, assume_inv)
            return VRef(('obj', oid))
        return VOpaque(ty)

    # ------------------------------------------------------------------ constants
    def const_val(self, st, c, ty) -> Val:
        """value of a decoded constant (json)"""
        k = c.get('c')
        if k == 'int':
            return VInt(Form.const(int(c['v'])), ty)
        if k == 'bool':
            return VBool(bool(c['v']))
        if k == 'float':
            r = c['repr']
            cls = 'nan' if r == 'NaN' else ('inf' if 'inf' in r else 'fin')
            return VFloat(frozenset((cls,)), ('const', r), (float(r), float(r)) if cls == 'fin' else None)
        if k == 'str':
            text = c['v']
            b = text.encode('utf-8')
            return VSlice(('cstr', text), Form.const(0), Form.const(len(b)), ('cbytes', b), 'u8')
        if k == 'fn':
            return VFn([c['key']])
        if k == 'closure':
            return VClosure(c['key'], ())
        if k == 'tuple':
            t = self.facts.types.get(ty, {})
            elems = t.get('elems') or [None] * len(c['v'])
            return VTuple([self.const_val(st, x, e) for x, e in zip(c['v'], elems)])
        if k in ('array', 'slice'):
            t = self.facts.types.get(ty, {})
            ety = t.get('elem')
            if ety is None and t.get('k') == 'ref':
                ety = self.facts.types.get(t['to'], {}).get('elem')
            items = c['v']
            if items and not isinstance(items[0], dict):
                bs = bytes(items)
                if k == 'slice':
                    return VSlice(('cbytes', bs), Form.const(0), Form.const(len(bs)), ('cbytes', bs), 'u8')
                return VArray([VInt(Form.const(x), 'u8') for x in items], 'u8')
            arr = VArray([self.const_val(st, x, ety) for x in items], ety)
            if k == 'slice':
                return VSlice(('carr', id(c)), Form.const(0), Form.const(len(items)), ('vals', arr), ety)
            return arr
        if k == 'ref':
            t = self.facts.types.get(ty, {})
            inner = self.const_val(st, c['v'], t.get('to'))
            if isinstance(inner, VArray) and False:
                pass
            return VRef(('val', inner))
        if k == 'adt':
            return VAdt(ty, {c['idx']: tuple(self._const_field(st, ty, c['idx'], i, f) for i, f in enumerate(c['fields']))})
        if k == 'static':
            return VRef(('static', c['def']))
        if k == 'zst':
            return VOpaque(ty, 'zst')
        return VOpaque(ty, 'const-' + str(k))

    def _const_field(self, st, ty, vidx, i, f):
        t = self.facts.types.get(ty, {})
        fty = None
        for v in t.get('variants', []):
            if v['idx'] == vidx and i < len(v['fields']):
                fty = v['fields'][i]['ty']
        return self.const_val(st, f, fty)

    def name_table(self, v, name):
        if isinstance(v, VArray):
            v.name = name
            for i, e in enumerate(v.elems):
                if isinstance(e, VArray):
                    self.name_table(e, f"{name}[{i}]")
        elif isinstance(v, VSlice) and v.elem[0] == 'vals':
            self.name_table(v.elem[1], name)            # a reference to the table (unsized to a slice)
        elif isinstance(v, VRef) and v.root[0] == 'val':
            self.name_table(v.root[1], name)

    def const_operand(self, st, o) -> Val:
        if 'ref' in o:
            key = o['ref']
            v = self.const_cache.get(key)
            if v is None:
                c = self.facts.const(key)
                v = self.const_val(st, c['val'], c['ty'])
                self.name_table(v, key)
                self.const_cache[key] = v
            return v
        v = self.const_val(st, o['val'], o['ty'])
        # an inlined copy of a named constant table (e.g. the promoted `&TABLE`): same provenance as the named one
        inner = o['val']
        while isinstance(inner, dict) and inner.get('c') == 'ref':
            inner = inner.get('v')
        if isinstance(inner, dict) and inner.get('c') in ('array', 'slice') and len(inner.get('v') or ()) >= 2:
            nm = self.table_names().get(json.dumps(inner, sort_keys=True))
            if nm is not None:
                self.name_table(v, nm)
        return v

    def table_names(self):
        """content -> def path of the crate's named constant arrays"""
        t = getattr(self, '_table_names', None)
        if t is None:
            t = {}
            for d, c in self.facts.consts.items():
                val = c.get('val')
                while isinstance(val, dict) and val.get('c') == 'ref':
                    val = val.get('v')
                if isinstance(val, dict) and val.get('c') in ('array', 'slice') and len(val.get('v') or ()) >= 2:
                    k = json.dumps(val, sort_keys=True)
                    t[k] = None if k in t else d          # ambiguous content: no name
            self._table_names = t
        return t

    # ------------------------------------------------------------------ places
    def resolve(self, st: State, fid, place):
        """place -> (root, path) location, following derefs.  May return ('slice', VSlice, idx_form|None)
        for locations inside a slice."""
        root = ('loc', fid, place['l'])
        path = ()
        proj = place['p']
        for e in proj:
            k = e['k']
            if k == 'deref':
                v = self.load(st, root, path)
                if isinstance(v, VRef):
                    root, path = v.root, v.path
                elif isinstance(v, VSlice):
                    root, path = ('slice', v), ()
                elif isinstance(v, VOpaque) or v is UNINIT:
                    root, path = ('opaque', v), ()
                else:
                    raise AnalysisIncomplete(f"deref of {v!r}")
            elif k == 'field':
                path = path + (('f', e['i'], e.get('ty')),)
            elif k == 'downcast':
                path = path + (('v', e['v']),)
            elif k == 'index':
                iv = st.frames[fid].get(e['l'])
                path = path + (('i', iv),)
            elif k == 'cindex':
                if e['from_end']:
                    path = path + (('ie', e['off']),)
                else:
                    path = path + (('i', self.cint(e['off'], 'usize')),)
            elif k == 'subslice':
                path = path + (('sub', e['from'], e['to'], e['from_end']),)
            elif k == 'opaquecast':
                pass
            else:
                raise AnalysisIncomplete(f"projection {k}")
        return root, path

    def load(self, st: State, root, path) -> Val:
        rk = root[0]
        if rk == 'loc':
            v = st.frames[root[1]].get(root[2], UNINIT)
        elif rk == 'obj':
            v = st.objs.get(root[1], UNINIT)
        elif rk == 'val':
            v = root[1]
        elif rk == 'slice':
            v = root[1]
        elif rk == 'opaque':
            v = root[1]
        elif rk == 'static':
            v = self.spec.static_value(self, st, root[1])
        else:
            raise AnalysisIncomplete(f"root {rk}")
        for step in path:
            v = self.project(st, v, step)
        return v

    def project(self, st: State, v: Val, step) -> Val:
        k = step[0]
        if isinstance(v, VOpaque) or v is UNINIT:
            ty = step[2] if k == 'f' and len(step) > 2 else None
            if ty is not None:
                return self.top(st, ty, 'opq', assume_inv=False)
            return VOpaque(None)
        if k == 'f':
            i = step[1]
            if isinstance(v, VAdt):
                sv = v.single()
                if sv is None:
                    raise AnalysisIncomplete(f"field of multi-variant {v!r}")
                fs = v.variants[sv]
                if i >= len(fs):
                    raise AnalysisIncomplete(f"field {i} of {v!r}")
                return fs[i]
            if isinstance(v, VTuple):
                return v.elems[i]
            if isinstance(v, VClosure):
                return v.upvars[i]
            raise AnalysisIncomplete(f"field {i} of {v!r}")
        if k == 'v':
            if isinstance(v, VAdt):
                if step[1] in v.variants:
                    if len(v.variants) == 1:
                        return v
                    return VAdt(v.ty, {step[1]: v.variants[step[1]]})
                raise Infeasible()
            raise AnalysisIncomplete(f"downcast of {v!r}")
        if k == 'i':
            return self.index(st, v, step[1])
        if k == 'ie':
            if isinstance(v, VSlice):
                idx = v.len.addc(-step[1])
                return self.index(st, v, VInt(idx, 'usize'))
            if isinstance(v, VArray):
                return v.elems[len(v.elems) - step[1]]
        if k == 'sub':
            _, a, b, from_end = step
            if isinstance(v, VSlice):
                if from_end:
                    return VSlice(v.base, v.off.addc(a), v.len.addc(-a - b), v.elem, v.ety)
                return VSlice(v.base, v.off.addc(a), Form.const(b - a), v.elem, v.ety)
            if isinstance(v, VArray):
                n = len(v.elems)
                return VArray(v.elems[a:(n - b) if from_end else b], v.ety)
        raise AnalysisIncomplete(f"projection {step} of {v!r}")

    def index(self, st: State, v: Val, iv: Val) -> Val:
        if not isinstance(iv, VInt):
            raise AnalysisIncomplete(f"index value {iv!r}")
        lo, hi = st.num.rng(iv.form)
        if isinstance(v, VArray):
            n = len(v.elems)
            lo, hi = max(lo, 0), min(hi, n - 1)
            if lo > hi:
                raise Infeasible()
            nm = getattr(v, 'name', None)
            if lo == hi:
                e = v.elems[lo]
                if nm is not None and isinstance(e, VSlice) and e.elem[0] == 'cbytes':
                    return VSlice(('tbl', nm, iv.form.key()), Form.const(0), e.len, e.elem, 'u8')
                return e
            if nm is not None and isinstance(v.elems[lo], VSlice) and v.elems[lo].elem[0] == 'cbytes':
                # a string read from a named constant table: remember the table and the index expression
                lens = [len(e.elem[1]) for e in v.elems[lo:hi + 1]]
                ln = Form.const(lens[0]) if min(lens) == max(lens) else self.fresh_int(st, 'usize', 'slen', min(lens), max(lens)).form
                return VSlice(('tbl', nm, iv.form.key()), Form.const(0), ln, ('bytes', 0, 255), 'u8')
            r = self.vjoin_many(st, list(v.elems[lo:hi + 1]))
            if nm is not None and isinstance(r, VInt) and len(r.form.terms) == 1 and r.form.c == 0:
                # remember which table and index expression a joined lookup came from
                SYMTAB.syms[r.form.terms[0][0]].data = ('tbl', nm, iv.form, lo, hi)
            return r
        if isinstance(v, VSlice):
            return self.slice_elem(st, v, iv.form)
        raise AnalysisIncomplete(f"index of {v!r}")

    def slice_elem(self, st: State, sl: VSlice, idx: Form) -> Val:
        e = sl.elem
        pos = sl.off.add(idx)
        if e[0] == 'vals':
            # same reading as a place projection table[i] (keeps the table / index provenance of named constant tables)
            return self.index(st, e[1], VInt(pos, 'usize'))
        if e[0] == 'cbytes':
            bs = e[1]
            lo, hi = st.num.rng(pos)
            lo, hi = max(lo, 0), min(hi, len(bs) - 1)
            if lo > hi:
                raise Infeasible()
            if lo == hi:
                return VInt(Form.const(bs[lo]), 'u8')
            vals = bs[lo:hi + 1]
            return self.fresh_int(st, 'u8', 'cbyte', min(vals), max(vals))
        if e[0] == 'bytes':
            s = SYMTAB.opaque('byte', (sl.base, pos.key()), 0, 255, name=f"byte[{sl.base}@{pos!r}]")
            if e[1] > 0:
                st.num.set_lo(s, e[1])
            if e[2] < 255:
                st.num.set_hi(s, e[2])
            return VInt(Form.sym(s), 'u8')
        if e[0] == 'top':
            return self.top(st, e[1], 'elem')
        raise AnalysisIncomplete(f"slice elem {e}")

    def store(self, st: State, root, path, val: Val):
        rk = root[0]
        if rk == 'loc':
            fr = st.wframe(root[1])
            fr[root[2]] = self.update(st, fr.get(root[2], UNINIT), path, val)
        elif rk == 'obj':
            st.objs[root[1]] = self.update(st, st.objs.get(root[1], UNINIT), path, val)
        elif rk == 'opaque':
            return
        elif rk == 'slice':
            return  # write into a slice: contents of byte buffers are not tracked
        else:
            raise AnalysisIncomplete(f"store to {rk}")

    def update(self, st: State, old: Val, path, val: Val) -> Val:
        if not path:
            return val
        step = path[0]
        k = step[0]
        if k == 'f':
            i = step[1]
            if isinstance(old, VAdt):
                sv = old.single()
                if sv is None:
                    raise AnalysisIncomplete("field store into multi-variant")
                fs = list(old.variants[sv])
                fs[i] = self.update(st, fs[i], path[1:], val)
                return VAdt(old.ty, {sv: tuple(fs)})
            if isinstance(old, VTuple):
                es = list(old.elems)
                es[i] = self.update(st, es[i], path[1:], val)
                return VTuple(es)
            if old is UNINIT or isinstance(old, VOpaque):
                # building a tuple/struct field by field: grow on demand
                es = [UNINIT] * (i + 1)
                es[i] = self.update(st, UNINIT, path[1:], val)
                return VTuple(es)
            if isinstance(old, VClosure):
                es = list(old.upvars)
                es[i] = self.update(st, es[i], path[1:], val)
                return VClosure(old.key, es)
            raise AnalysisIncomplete(f"field store into {old!r}")
        if k == 'v':
            if isinstance(old, VAdt) and step[1] in old.variants:
                inner = VAdt(old.ty, {step[1]: old.variants[step[1]]})
                return self.update(st, inner, path[1:], val)
            raise AnalysisIncomplete(f"downcast store into {old!r}")
        if k == 'i':
            iv = step[1]
            if isinstance(old, VArray) and isinstance(iv, VInt):
                lo, hi = st.num.rng(iv.form)
                n = len(old.elems)
                lo, hi = max(lo, 0), min(hi, n - 1)
                es = list(old.elems)
                if lo == hi:
                    es[lo] = self.update(st, es[lo], path[1:], val)
                else:
                    for j in range(lo, hi + 1):
                        nv = self.update(st, es[j], path[1:], val)
                        es[j] = self.vjoin(st, es[j], nv)
                return VArray(es, old.ety)
            if isinstance(old, (VSlice, VOpaque)):
                return old
        raise AnalysisIncomplete(f"store step {step} into {old!r}")

    def read_place(self, st, fid, place) -> Val:
        root, path = self.resolve(st, fid, place)
        return self.load(st, root, path)

    def write_place(self, st, fid, place, val):
        if not place['p']:
            st.wframe(fid)[place['l']] = val
            return
        root, path = self.resolve(st, fid, place)
        self.store(st, root, path, val)

    # ------------------------------------------------------------------ joins
    def vjoin_many(self, st, vals):
        r = vals[0]
        for v in vals[1:]:
            r = self.vjoin(st, r, v)
        return r

    def vjoin(self, st: State, a: Val, b: Val, sa: State = None, sb: State = None, widen=None, chg=None) -> Val:
        """join of two values; sa/sb: the states they come from (default: st for both)."""
        sa = sa or st
        sb = sb or st
        if a is b:
            return a
        if isinstance(a, VInt) and isinstance(b, VInt):
            if a.form == b.form:
                return a
            tlo, thi = self.irange(a.ty)
            la, ha = sa.num.rng(a.form)
            lb, hb = sb.num.rng(b.form)
            la, lb = max(la, tlo), max(lb, tlo)
            ha, hb = min(ha, thi), min(hb, thi)
            lo, hi = min(la, lb), max(ha, hb)
            if chg is not None and (lb < la or hb > ha):
                chg[0] = True
            if widen:
                tlo, thi = self.irange(a.ty)
                if hb > ha:
                    hi = next((t for t in THRESHOLDS if t >= hi), thi) if widen == 1 else thi
                if lb < la:
                    lo = next((t for t in NEG_THRESHOLDS if t <= lo), tlo) if widen == 1 else tlo
                hi = min(hi, thi)
                lo = max(lo, tlo)
            taint = frozenset()
            for s, _ in a.form.terms + b.form.terms:
                taint |= SYMTAB.syms[s].taint
            # congruence join for a small set of useful moduli
            mod, rem = 1, 0
            for m in (1_000_000, 7):
                ra, rb = sa.num.residue(a.form, m), sb.num.residue(b.form, m)
                if ra is not None and ra == rb:
                    mod, rem = m, ra
                    break
            # common linear part P (same symbol, same coefficient) is kept: a = P + ra, b = P + rb
            da, db = dict(a.form.terms), dict(b.form.terms)
            common = tuple((s, k) for s, k in a.form.terms if db.get(s) == k)
            if common and not widen:
                P = Form(0, common)
                ra_f, rb_f = a.form.sub(P), b.form.sub(P)
                l1, h1 = sa.num.rng(ra_f)
                l2, h2 = sb.num.rng(rb_f)
                if max(h1, h2) - min(l1, l2) <= (1 << 40):
                    r = SYMTAB.new(f"jr#{len(SYMTAB.syms)}", min(l1, l2), max(h1, h2), 'var', None, 1, 0, taint)
                    f = P.add(Form.sym(r))
                    try:
                        st.num.add_fact(f.addc(-hi))
                        st.num.add_fact(f.neg().addc(lo))
                    except Infeasible:
                        pass
                    return VInt(f, a.ty)
            nv = self.fresh_int(st, a.ty, 'j', lo, hi, taint=taint, mod=mod, rem=rem)
            return nv
        if isinstance(a, VBool) and isinstance(b, VBool):
            if a.val == b.val and a.val is not None:
                return VBool(a.val)
            if chg is not None and a.val is not None:
                chg[0] = True
            if a.val is None and a.sym is not None and b.val is None and b.sym == a.sym:
                return a
            return self.unknown_bool()
        if isinstance(a, VFloat) and isinstance(b, VFloat):
            if chg is not None and not (b.cls <= a.cls):
                chg[0] = True
            return VFloat(a.cls | b.cls, a.expr if a.expr == b.expr else None)
        if isinstance(a, VAdt) and isinstance(b, VAdt):
            vs = {}
            for k in set(a.variants) | set(b.variants):
                if k in a.variants and k in b.variants:
                    fa, fb = a.variants[k], b.variants[k]
                    if len(fa) != len(fb):
                        raise AnalysisIncomplete("variant arity")
                    vs[k] = tuple(self.vjoin(st, x, y, sa, sb, widen, chg) for x, y in zip(fa, fb))
                elif k in a.variants:
                    vs[k] = a.variants[k]
                else:
                    vs[k] = b.variants[k]
                    if chg is not None:
                        chg[0] = True
            return VAdt(a.ty, vs)
        if isinstance(a, VTuple) and isinstance(b, VTuple) and len(a.elems) == len(b.elems):
            return VTuple([self.vjoin(st, x, y, sa, sb, widen, chg) for x, y in zip(a.elems, b.elems)])
        if isinstance(a, VArray) and isinstance(b, VArray) and len(a.elems) == len(b.elems):
            return VArray([self.vjoin(st, x, y, sa, sb, widen, chg) for x, y in zip(a.elems, b.elems)], a.ety)
        if isinstance(a, VRef) and isinstance(b, VRef):
            if a.root == b.root and a.path == b.path:
                return a
            if a.root[0] == 'val' and b.root[0] == 'val':
                return VRef(('val', self.vjoin(st, a.root[1], b.root[1], sa, sb, widen, chg)))
            if chg is not None:
                chg[0] = True
            return VOpaque(None, 'ref-join')
        if isinstance(a, VSlice) and isinstance(b, VSlice):
            off = self.vjoin(st, VInt(a.off, 'usize'), VInt(b.off, 'usize'), sa, sb, widen, chg).form
            ln = self.vjoin(st, VInt(a.len, 'usize'), VInt(b.len, 'usize'), sa, sb, widen, chg).form
            if a.base == b.base and a.elem == b.elem:
                return VSlice(a.base, off, ln, a.elem, a.ety)
            if a.elem[0] in ('bytes', 'cbytes') and b.elem[0] in ('bytes', 'cbytes'):
                def cls(e):
                    if e[0] == 'bytes':
                        return e[1], e[2]
                    return (min(e[1]), max(e[1])) if e[1] else (255, 0)
                (l1, h1), (l2, h2) = cls(a.elem), cls(b.elem)
                oid = ('join', st.new_id())
                return VSlice(oid, off, ln, ('bytes', min(l1, l2), max(h1, h2)), a.ety)
            if a.elem[0] == 'vals' and b.elem[0] == 'vals':
                # different constant tables: element = join of all
                ev = self.vjoin_many(st, list(a.elem[1].elems) + list(b.elem[1].elems))
                return VSlice(('join', st.new_id()), off, ln, ('one', ev), a.ety)
            return VSlice(('join', st.new_id()), off, ln, ('top', a.ety), a.ety)
        if isinstance(a, VFn) and isinstance(b, VFn):
            if chg is not None and not (b.keys <= a.keys):
                chg[0] = True
            return VFn(a.keys | b.keys)
        if isinstance(a, VClosure) and isinstance(b, VClosure) and a.key == b.key:
            return VClosure(a.key, [self.vjoin(st, x, y, sa, sb, widen, chg) for x, y in zip(a.upvars, b.upvars)])
        if a is UNINIT:
            return b
        if b is UNINIT:
            return a
        if isinstance(a, VOpaque) and isinstance(b, VOpaque):
            if a.tag == b.tag and a.data == b.data:
                return VOpaque(a.ty, a.tag, a.data, a.taint | b.taint)
            if a.tag == b.tag and a.tag is not None:
                jd = self.models.join_opaque(self, st, a, b, sa, sb, widen, chg)
                if jd is not None:
                    return jd
            return VOpaque(a.ty, None, None, a.taint | b.taint)
        if chg is not None:
            chg[0] = True
        return VOpaque(None, 'join')

    def sjoin(self, a: State, b: State, widen=None):
        """join state b into loop invariant a.  returns (joined, changed)"""
        j = a.copy()
        chg = [False]
        if set(a.frames) != set(b.frames):
            raise AnalysisIncomplete("join of different call stacks")
        # numeric part: hull of refinements of symbols known to both
        jn = Num()
        alo, ahi, blo, bhi = a.num.lo, a.num.hi, b.num.lo, b.num.hi
        syms = SYMTAB.syms
        for s, v in alo.items():
            w = blo.get(s)
            if w is None:
                continue
            jn.lo[s] = v if v <= w else w
        for s, v in ahi.items():
            w = bhi.get(s)
            if w is None:
                continue
            jn.hi[s] = v if v >= w else w
        for s, c in a.num.cong.items():
            if b.num.cong.get(s) == c:
                jn.cong[s] = c
        bf = set(b.num.facts)
        jn.facts = [f for f in a.num.facts if f in bf]
        for s, ex in a.num.neq.items():
            e2 = b.num.neq.get(s)
            if e2:
                both = ex & e2
                if both:
                    jn.neq[s] = both
        jn.divs = a.num.divs | b.num.divs
        jn.nez = [f for f in a.num.nez if f in b.num.nez]
        jn.congf = [f for f in a.num.congf if f in b.num.congf]
        for q, (lo, hi) in a.num.remb.items():
            o = b.num.remb.get(q)
            if o is not None:
                jn.remb[q] = (min(lo, o[0]), max(hi, o[1]))
        for q, pk in a.num.parent.items():
            if b.num.parent.get(q) == pk:
                jn.parent[q] = pk
        j.num = jn
        for fid in a.frames:
            fa, fb = a.frames[fid], b.frames[fid]
            if fa is fb:
                continue
            fj = j.wframe(fid)
            for l in set(fa) | set(fb):
                va, vb = fa.get(l, UNINIT), fb.get(l, UNINIT)
                if va is vb:
                    continue
                before = chg[0]
                fj[l] = self.vjoin(j, va, vb, a, b, widen, chg)
                if self.trace and chg[0] and not before:
                    print(f"   [join] frame {fid} local _{l} changed: {va!r}  U  {vb!r}", file=sys.stderr)
                    chg[0] = False
                    chg.append(1)
        for oid in set(a.objs) | set(b.objs):
            va, vb = a.objs.get(oid, UNINIT), b.objs.get(oid, UNINIT)
            if va is vb:
                continue
            j.objs[oid] = self.vjoin(j, va, vb, a, b, widen, chg)
        for k in set(a.notes) | set(b.notes):
            na, nb = a.notes.get(k, 0), b.notes.get(k, 0)
            if isinstance(na, int) and isinstance(nb, int):
                j.notes[k] = max(na, nb)
        for src in (a, b):
            for (d, form, fn, bbi, sp, why) in src.notes.get('inv_pending', ()):
                # a deferred invariant check cannot be followed through a join: decide it now, conservatively
                self.oblige('R-inv', fn, bbi, f"construct {d}", sp, False, src, why + ' (paths joined before the value was range-checked or returned)')
        return j, (chg[0] or len(chg) > 1)

    # ------------------------------------------------------------------ predicates
    def assume(self, st: State, pred, truth: bool):
        """refine st by pred == truth; returns list of states (possibly forked, possibly empty)"""
        if pred is None:
            return [st]
        k = pred[0]
        try:
            if k == 'not':
                return self.assume(st, pred[1], not truth)
            if k == 'const':
                return [st] if pred[1] == truth else []
            if k == 'bsym':
                lo, hi = st.num.slo(pred[1]), st.num.shi(pred[1])
                want = 1 if truth else 0
                if lo == hi:
                    return [st] if lo == want else []
                if truth:
                    st.num.set_lo(pred[1], 1)
                else:
                    st.num.set_hi(pred[1], 0)
                return self.assume(st, pred[2], truth) if pred[2] is not None else [st]
            if k == 'and':
                if truth:
                    out = []
                    for s1 in self.assume(st, pred[1], True):
                        out.extend(self.assume(s1, pred[2], True))
                    return out
                out = self.assume(st.copy(), pred[1], False)
                for s1 in self.assume(st.copy(), pred[1], True):
                    out.extend(self.assume(s1, pred[2], False))
                return out
            if k == 'or':
                if not truth:
                    out = []
                    for s1 in self.assume(st, pred[1], False):
                        out.extend(self.assume(s1, pred[2], False))
                    return out
                out = self.assume(st.copy(), pred[1], True)
                for s1 in self.assume(st.copy(), pred[1], False):
                    out.extend(self.assume(s1, pred[2], True))
                return out
            if k == 'cmp':
                op, a, b = pred[1], pred[2], pred[3]
                if not truth:
                    op = {'lt': 'ge', 'le': 'gt', 'gt': 'le', 'ge': 'lt', 'eq': 'ne', 'ne': 'eq'}[op]
                f = a.sub(b)
                n = st.num
                if op == 'ne' and f.terms and n.divs and n.rem_known_zero(f):
                    return []
                if op == 'lt':
                    n.add_fact(f.addc(1))
                elif op == 'le':
                    n.add_fact(f)
                elif op == 'gt':
                    n.add_fact(f.neg().addc(1))
                elif op == 'ge':
                    n.add_fact(f.neg())
                elif op == 'eq':
                    n.add_fact(f)
                    n.add_fact(f.neg())
                    n.note_equality(f)
                elif op == 'ne':
                    if len(f.terms) == 1 and abs(f.terms[0][1]) == 1:
                        s, kk = f.terms[0]
                        v = -f.c * kk
                        n.exclude(s, v)
                        n.propagate({s})
                    else:
                        lo, hi = n.rng(f)
                        if lo == 0 and hi == 0:
                            return []
                        if hi == 0:
                            n.add_fact(f.addc(1))
                        elif lo == 0:
                            n.add_fact(f.neg().addc(1))
                        elif lo < 0 < hi:
                            n.note_nonzero(f)
                return [st]
            if k == 'fcls':
                # float classification predicate: value v is (not) in class c
                return self.models.assume_fcls(self, st, pred, truth)
            if k == 'custom':
                return pred[1](self, st, truth)
            return [st]
        except Infeasible:
            return []

    def decide(self, st: State, pred, deep=False):
        """True / False / None"""
        if pred is None:
            return None
        k = pred[0]
        if k == 'const':
            return pred[1]
        if k == 'bsym':
            lo, hi = st.num.slo(pred[1]), st.num.shi(pred[1])
            if lo == hi:
                return lo == 1
            return self.decide(st, pred[2], deep) if pred[2] is not None else None
        if k == 'not':
            r = self.decide(st, pred[1], deep)
            return None if r is None else (not r)
        if k == 'and':
            a, b = self.decide(st, pred[1], deep), self.decide(st, pred[2], deep)
            if a is False or b is False:
                return False
            if a is True and b is True:
                return True
            return self.refute(st, pred) if deep else None
        if k == 'or':
            a, b = self.decide(st, pred[1], deep), self.decide(st, pred[2], deep)
            if a is True or b is True:
                return True
            if a is False and b is False:
                return False
            return self.refute(st, pred) if deep else None
        if k == 'cmp':
            op, a, b = pred[1], pred[2], pred[3]
            lo, hi = st.num.rng2(a.sub(b)) if deep else st.num.rng(a.sub(b))
            if op == 'lt':
                return True if hi < 0 else (False if lo >= 0 else None)
            if op == 'le':
                return True if hi <= 0 else (False if lo > 0 else None)
            if op == 'gt':
                return True if lo > 0 else (False if hi <= 0 else None)
            if op == 'ge':
                return True if lo >= 0 else (False if hi < 0 else None)
            if op == 'eq':
                if lo == 0 and hi == 0:
                    return True
                if lo > 0 or hi < 0:
                    return False
                f = a.sub(b)
                if f.terms and st.num.divs and st.num.rem_known_zero(f):
                    return True
                if st.num.known_nonzero(f):
                    return False
                if len(f.terms) == 1 and abs(f.terms[0][1]) == 1:
                    s, kk = f.terms[0]
                    if (-f.c * kk) in st.num.neq.get(s, ()):
                        return False
                return None
            if op == 'ne':
                r = self.decide(st, ('cmp', 'eq', a, b), deep)
                return None if r is None else (not r)
        return None

    def refute(self, st: State, pred):
        """decide a compound predicate whose parts are undecided one by one: it holds if its negation is infeasible
        on this path (a disjunction entailed by a relational fact, e.g. h | m | s != 0), and conversely"""
        try:
            if not self.assume(st.copy(), pred, False):
                return True
            if not self.assume(st.copy(), pred, True):
                return False
        except (AnalysisIncomplete, Infeasible):
            return None
        return None

    def float_pred_desc(self, p):
        """(description, negated) of a predicate that tests a float, else None"""
        neg = False
        while p is not None:
            k = p[0]
            if k == 'bsym':
                p = p[2]
            elif k == 'not':
                neg = not neg
                p = p[1]
            elif k == 'fcls':
                return (('is_' + p[3], p[2].expr), neg)
            elif k == 'fcmp':
                a, b = p[2], p[3]
                return ((p[1], getattr(a, 'expr', None), getattr(b, 'expr', None)), neg)
            else:
                return None
        return None

    def mkbool(self, st, pred) -> VBool:
        d = self.decide(st, pred)
        if d is not None:
            return VBool(d, pred)
        return VBool(None, pred, SYMTAB.new(f"b#{len(SYMTAB.syms)}", 0, 1, 'bool'))

    def unknown_bool(self, pred=None) -> VBool:
        return VBool(None, pred, SYMTAB.new(f"b#{len(SYMTAB.syms)}", 0, 1, 'bool'))

    def bool_pred(self, v: Val):
        if isinstance(v, VBool):
            if v.val is not None:
                return ('const', v.val)
            if v.sym is not None:
                return ('bsym', v.sym, v.pred)
            return v.pred
        return None

    # ------------------------------------------------------------------ operands / rvalues
    def operand(self, st: State, fid, o) -> Val:
        k = o['o']
        if k == 'copy' or k == 'move':
            v = self.read_place(st, fid, o['p'])
            if isinstance(v, VBool) and v.val is None and v.sym is not None:
                lo, hi = st.num.slo(v.sym), st.num.shi(v.sym)
                if lo == hi:
                    return VBool(lo == 1)
            return v
        if k == 'const':
            return self.const_operand(st, o)
        if k == 'runtime_checks':
            return self.unknown_bool()
        raise AnalysisIncomplete(f"operand {k}")

    def int_binop(self, st: State, op, a: VInt, b: VInt, ty):
        """mathematical result form of a op b (no wrapping) or None if not linear"""
        n = st.num
        if op in ('Add', 'AddWithOverflow', 'AddUnchecked'):
            return a.form.add(b.form)
        if op in ('Sub', 'SubWithOverflow', 'SubUnchecked'):
            return a.form.sub(b.form)
        if op in ('Mul', 'MulWithOverflow', 'MulUnchecked'):
            if a.form.is_const():
                return b.form.scale(a.form.c)
            if b.form.is_const():
                return a.form.scale(b.form.c)
            la, ha = n.rng(a.form)
            lb, hb = n.rng(b.form)
            if la == ha:
                return b.form.scale(la)
            if lb == hb:
                return a.form.scale(lb)
            cands = [la * lb, la * hb, ha * lb, ha * hb]
            tlo, thi = self.irange(ty)
            big = max(abs(tlo), abs(thi)) ** 2
            s = SYMTAB.opaque('mul', (a.form.key(), b.form.key()), -big, big)
            if min(cands) > n.slo(s):
                n.lo[s] = min(cands)
            if max(cands) < n.shi(s):
                n.hi[s] = max(cands)
            return Form.sym(s)
        if op in ('Div', 'Rem'):
            lb, hb = n.rng(b.form)
            if lb == hb and lb != 0:
                c = lb
                if a.form.is_const():
                    v = tdiv(a.form.c, c) if op == 'Div' else trem(a.form.c, c)
                    return Form.const(v)
                if c < 0:
                    # x / -c = -(x / c) ; x % -c = x % c  (truncating semantics)
                    q = self.int_binop(st, 'Div', a, VInt(Form.const(-c), b.ty), ty)
                    if op == 'Div':
                        return q.neg()
                    return a.form.sub(q.scale(-c))
                if a.form.c % c == 0 and all(k % c == 0 for _, k in a.form.terms):
                    # every value of the dividend is a multiple of c: the division is exact
                    qf = Form(a.form.c // c, tuple((s_, k // c) for s_, k in a.form.terms))
                    return qf if op == 'Div' else Form.const(0)
                la, ha = n.rng2(a.form)
                if a.form.terms and all(k % c == 0 for _, k in a.form.terms) and (la >= 0 or ha <= 0):
                    # c*T + k with a known sign: the quotient is T + floor(k/c) (dividend >= 0) or T + ceil(k/c) (<= 0)
                    k1, k0 = a.form.c // c, a.form.c % c
                    if la < 0 and k0:
                        k1 += 1
                    qf = Form(k1, tuple((s_, k // c) for s_, k in a.form.terms))
                    return qf if op == 'Div' else a.form.sub(qf.scale(c))
                tlo, thi = self.irange(ty)
                q = SYMTAB.div(a.form, c, tdiv(tlo, c) - 1, tdiv(thi, c) + 1)
                if tdiv(la, c) > n.slo(q):
                    n.lo[q] = tdiv(la, c)
                if tdiv(ha, c) < n.shi(q):
                    n.hi[q] = tdiv(ha, c)
                n.note_div(q)
                if op == 'Div':
                    return Form.sym(q)
                return a.form.sub(Form.sym(q, c))
            la, ha = n.rng(a.form)
            m = max(abs(la), abs(ha))
            tlo, thi = self.irange(ty)
            big = max(abs(tlo), abs(thi))
            if op == 'Div':
                s = SYMTAB.opaque('divv', (a.form.key(), b.form.key()), -big, big)
                bound = m
            else:
                mb = max(abs(lb), abs(hb))
                s = SYMTAB.opaque('remv', (a.form.key(), b.form.key()), -big, big)
                bound = min(m, mb)
            if -bound > n.slo(s):
                n.lo[s] = -bound
            if bound < n.shi(s):
                n.hi[s] = bound
            return Form.sym(s)
        return None

    def fork_small_index(self, st: State, fid, place):
        """case split on the index of a small constant table of non-scalar entries (enum values, (fn, offset)
        pairs): keeps the correlation between the index and the selected entry"""
        if self.spec.no_table_fork(st):
            return None
        try:
            root = ('loc', fid, place['l'])
            path = ()
            for e in place['p']:
                k = e['k']
                if k == 'index':
                    base = self.load(st, root, path)
                    iv = st.frames[fid].get(e['l'])
                    if isinstance(base, VArray) and isinstance(iv, VInt) and 2 <= len(base.elems) <= 8 \
                            and not isinstance(base.elems[0], (VInt, VSlice, VFloat, VBool)):
                        lo, hi = st.num.rng(iv.form)
                        lo, hi = max(lo, 0), min(hi, len(base.elems) - 1)
                        if lo < hi:
                            self.events.append(('table-index', getattr(base, 'name', None), iv.form, lo, hi))
                            out = []
                            for kk in range(lo, hi + 1):
                                out.extend(self.assume(st.copy(), ('cmp', 'eq', iv.form, Form.const(kk)), True))
                            return out
                    return None
                if k == 'deref':
                    v = self.load(st, root, path)
                    if isinstance(v, VRef):
                        root, path = v.root, v.path
                    else:
                        return None
                elif k == 'field':
                    path = path + (('f', e['i'], e.get('ty')),)
                elif k == 'downcast':
                    path = path + (('v', e['v']),)
                else:
                    return None
        except (AnalysisIncomplete, Infeasible):
            return None
        return None

    def fits(self, st: State, f: Form, ty) -> bool:
        lo, hi = st.num.rng(f)
        tlo, thi = self.irange(ty)
        return lo >= tlo and hi <= thi

    def wrap_or_keep(self, st: State, f: Form, ty, why='wrap') -> VInt:
        if self.fits(st, f, ty):
            return VInt(f, ty)
        if f.is_const():
            tlo, thi = self.irange(ty)
            span = thi - tlo + 1
            return VInt(Form.const((f.c - tlo) % span + tlo), ty)
        tlo, thi = self.irange(ty)
        taint = frozenset()
        for s, _ in f.terms:
            taint |= SYMTAB.syms[s].taint
        s = SYMTAB.opaque(why, (f.key(), ty), tlo, thi, taint=taint)
        SYMTAB.syms[s].data = (why, f, ty)
        return VInt(Form.sym(s), ty)

    def rvalue(self, st: State, fid, rv, body):
        """returns list of (state, value); forks on discriminant reads of multi-variant values"""
        k = rv['r']
        if k == 'use':
            o = rv['a']
            if o['o'] in ('copy', 'move') and any(e['k'] == 'index' for e in o['p']['p']):
                forks = self.fork_small_index(st, fid, o['p'])
                if forks is not None:
                    return [(s2, self.operand(s2, fid, o)) for s2 in forks]
            return [(st, self.operand(st, fid, rv['a']))]
        if k == 'bin':
            a = self.operand(st, fid, rv['a'])
            b = self.operand(st, fid, rv['b'])
            return [(st, self.binop(st, rv['op'], a, b, rv['ty']))]
        if k == 'un':
            a = self.operand(st, fid, rv['a'])
            op = rv['op']
            if op == 'Not':
                if isinstance(a, VBool):
                    if a.val is not None:
                        return [(st, VBool(not a.val))]
                    return [(st, VBool(None, ('not', a.pred) if a.pred else None))]
                if isinstance(a, VInt) and a.form.is_const():
                    tlo, thi = self.irange(a.ty)
                    v = ~a.form.c if tlo < 0 else thi - a.form.c
                    return [(st, self.cint(v, a.ty))]
                return [(st, self.top(st, rv['ty'], 'not'))]
            if op == 'Neg':
                if isinstance(a, VInt):
                    return [(st, self.wrap_or_keep(st, a.form.neg(), a.ty))]
                if isinstance(a, VFloat):
                    r = (-a.rng[1], -a.rng[0]) if a.rng is not None else None
                    return [(st, VFloat(a.cls, ('neg', a.expr), r))]
            if op == 'PtrMetadata':
                if isinstance(a, VSlice):
                    return [(st, VInt(a.len, 'usize'))]
                if isinstance(a, VRef):
                    tv = self.load(st, a.root, a.path)
                    if isinstance(tv, VSlice):
                        return [(st, VInt(tv.len, 'usize'))]
                    if isinstance(tv, VArray):
                        return [(st, self.cint(len(tv.elems), 'usize'))]
                return [(st, self.fresh_int(st, 'usize', 'meta', 0, (1 << 63) - 1))]
            raise AnalysisIncomplete(f"unop {op} on {a!r}")
        if k == 'cast':
            if rv['kind'] == 'IntToInt':
                a = self.operand(st, fid, rv['a'])
                if isinstance(a, VBool) and a.val is None:
                    out = []
                    p = self.bool_pred(a)
                    for truth in (False, True):
                        for s2 in self.assume(st.copy(), p, truth):
                            out.append((s2, self.cint(1 if truth else 0, rv['to'])))
                    return out
            return [(st, self.cast(st, fid, rv))]
        if k == 'ref' or k == 'rawptr':
            root, path = self.resolve(st, fid, rv['p'])
            if root[0] == 'slice' and not path:
                return [(st, root[1])]
            if root[0] == 'slice' and path and path[-1][0] == 'sub':
                return [(st, self.load(st, root, path))]
            if path and path[-1][0] == 'sub':
                return [(st, self.load(st, root, path))]
            v = None
            if root[0] in ('loc', 'obj'):
                # a reference to a location holding an unsized slice value is the slice itself
                pass
            return [(st, VRef(root, path))]
        if k == 'discr':
            root, path = self.resolve(st, fid, rv['p'])
            v = self.load(st, root, path)
            if isinstance(v, VAdt):
                t = self.facts.ty(v.ty)
                dm = {x['idx']: x['discr'] for x in t['variants']}
                dty = self.spec.discr_ty(t)
                if len(v.variants) == 1:
                    return [(st, self.cint(dm[v.single()], dty))]
                out = []
                for vi in sorted(v.variants):
                    s2 = st.copy()
                    nv = VAdt(v.ty, {vi: v.variants[vi]})
                    try:
                        self.store(s2, root, path, nv)
                    except AnalysisIncomplete:
                        pass
                    out.append((s2, self.cint(dm[vi], dty)))
                return out
            if isinstance(v, VOpaque) or v is UNINIT:
                # unknown enum: materialise all variants
                tv = self.top(st, rv['ty'], 'enum', assume_inv=False)
                if isinstance(tv, VAdt):
                    self.store(st, root, path, tv)
                    return self.rvalue(st, fid, rv, body)
                return [(st, self.fresh_int(st, 'isize', 'discr'))]
            raise AnalysisIncomplete(f"discriminant of {v!r}")
        if k == 'agg':
            ops = [self.operand(st, fid, o) for o in rv['ops']]
            kind = rv['kind']
            if kind == 'tuple':
                return [(st, VTuple(ops))]
            if kind == 'array':
                return [(st, VArray(ops, rv.get('elem')))]
            if kind == 'adt':
                v = VAdt(rv['ty'], {rv['variant']: tuple(ops)})
                self.spec.on_construct(self, st, rv, v, body, fid)
                return [(st, v)]
            if kind == 'closure':
                return [(st, VClosure(rv['key'], ops))]
            raise AnalysisIncomplete(f"aggregate {kind}")
        if k == 'repeat':
            a = self.operand(st, fid, rv['a'])
            n = rv['n']
            if n is None or n > 4096:
                raise AnalysisIncomplete("repeat length")
            return [(st, VArray([a] * n))]
        if k == 'tls':
            return [(st, VOpaque(None, 'tls'))]
        raise AnalysisIncomplete(f"rvalue {k}")

    def binop(self, st: State, op, a: Val, b: Val, ty) -> Val:
        if isinstance(a, VInt) and isinstance(b, VInt):
            if op in ('Eq', 'Ne', 'Lt', 'Le', 'Gt', 'Ge'):
                return self.mkbool(st, ('cmp', op.lower(), a.form, b.form))
            if op.endswith('WithOverflow'):
                f = self.int_binop(st, op, a, b, ty)
                tlo, thi = self.irange(ty)
                ov = ('or', ('cmp', 'lt', f, Form.const(tlo)), ('cmp', 'gt', f, Form.const(thi)))
                return VTuple([VInt(f, ty), self.mkbool(st, ov)])
            if op in ('Add', 'Sub', 'Mul', 'Div', 'Rem', 'AddUnchecked', 'SubUnchecked', 'MulUnchecked'):
                f = self.int_binop(st, op, a, b, ty)
                return self.wrap_or_keep(st, f, ty)
            if op in ('BitAnd', 'BitOr', 'BitXor', 'Shl', 'Shr', 'ShlUnchecked', 'ShrUnchecked'):
                if a.form.is_const() and b.form.is_const():
                    x, y = a.form.c, b.form.c
                    r = {'BitAnd': x & y, 'BitOr': x | y, 'BitXor': x ^ y}.get(op)
                    if r is None:
                        r = x << y if op.startswith('Shl') else x >> y
                    return self.wrap_or_keep(st, Form.const(r), ty)
                la, ha = st.num.rng(a.form)
                if op == 'BitAnd' and b.form.is_const() and b.form.c >= 0:
                    return self.fresh_int(st, ty, 'and', 0, b.form.c)
                if op in ('Shr', 'ShrUnchecked') and b.form.is_const() and la >= 0:
                    return self.fresh_int(st, ty, 'shr', la >> b.form.c, ha >> b.form.c)
                lb, hb = st.num.rng(b.form)
                if op in ('BitOr', 'BitXor', 'BitAnd') and la >= 0 and lb >= 0:
                    # non-negative operands: max(a, b) <= a | b <= a + b ;  a ^ b <= a + b ;  a & b <= min(a, b)
                    tlo, thi = self.irange(ty)
                    sym = SYMTAB.opaque(op.lower(), (a.form.key(), b.form.key()), 0, thi)
                    r = Form.sym(sym)
                    n = st.num
                    try:
                        if op == 'BitOr':
                            n.add_fact(a.form.sub(r))
                            n.add_fact(b.form.sub(r))
                            n.add_fact(r.sub(a.form).sub(b.form))
                        elif op == 'BitXor':
                            n.add_fact(r.sub(a.form).sub(b.form))
                        else:
                            n.add_fact(r.sub(a.form))
                            n.add_fact(r.sub(b.form))
                    except Infeasible:
                        pass
                    return VInt(r, ty)
                return self.top(st, ty, 'bit')
            if op == 'Cmp':
                return self.models.ordering(self, st, a.form, b.form)
            if op == 'Offset':
                return VOpaque(None, 'ptr')
        if isinstance(a, VBool) and isinstance(b, VBool):
            pa, pb = self.bool_pred(a), self.bool_pred(b)
            if op == 'BitAnd':
                if a.val is False or b.val is False:
                    return VBool(False)
                if a.val is True and b.val is True:
                    return VBool(True)
                return self.mkbool(st, ('and', pa, pb)) if pa and pb else self.unknown_bool()
            if op == 'BitOr':
                if a.val is True or b.val is True:
                    return VBool(True)
                if a.val is False and b.val is False:
                    return VBool(False)
                return self.mkbool(st, ('or', pa, pb)) if pa and pb else self.unknown_bool()
            if op in ('Eq', 'Ne'):
                if a.val is not None and b.val is not None:
                    return VBool((a.val == b.val) == (op == 'Eq'))
                if b.val is not None and pa:
                    p = pa if (b.val == (op == 'Eq')) else ('not', pa)
                    return self.mkbool(st, p)
                if a.val is not None and pb:
                    p = pb if (a.val == (op == 'Eq')) else ('not', pb)
                    return self.mkbool(st, p)
                return self.unknown_bool()
            if op == 'BitXor':
                return self.unknown_bool()
        if isinstance(a, VFloat) or isinstance(b, VFloat):
            return self.models.float_binop(self, st, op, a, b)
        if isinstance(a, VAdt) and isinstance(b, VAdt) and op in ('Eq', 'Ne'):
            return self.unknown_bool()
        if op in ('Eq', 'Ne', 'Lt', 'Le', 'Gt', 'Ge'):
            return self.unknown_bool()
        if isinstance(a, (VOpaque,)) or isinstance(b, (VOpaque,)):
            return self.top(st, ty, 'opq') if op not in ('Offset',) else VOpaque(None, 'ptr')
        raise AnalysisIncomplete(f"binop {op} on {a!r}, {b!r}")

    def cast(self, st: State, fid, rv) -> Val:
        kind = rv['kind']
        a = self.operand(st, fid, rv['a'])
        to = rv['to']
        if kind == 'IntToInt':
            if isinstance(a, VBool):
                if a.val is not None:
                    return self.cint(1 if a.val else 0, to)
                v = self.fresh_int(st, to, 'b2i', 0, 1)
                s = v.form.terms[0][0]
                SYMTAB.syms[s].data = ('b2i', a.pred)
                return v
            if isinstance(a, VInt):
                self.spec.on_cast(self, st, rv, a, to)
                return self.wrap_or_keep(st, a.form, to, 'cast')
            if isinstance(a, VAdt):
                t = self.facts.ty(a.ty)
                dm = {x['idx']: x['discr'] for x in t['variants']}
                ds = sorted(dm[v] for v in a.variants)
                if len(ds) == 1:
                    return self.cint(ds[0], to)
                v = self.fresh_int(st, to, 'discr', ds[0], ds[-1])
                return v
            return self.top(st, to, 'cast')
        if kind == 'IntToFloat':
            if isinstance(a, VInt):
                self.spec.on_cast(self, st, rv, a, to)
                lo, hi = st.num.rng(a.form)
                return VFloat(frozenset(('fin',)), ('i2f', a.form, a.ty), self.models.int_to_float_rng(lo, hi))
            return VFloat(frozenset(('fin',)), None)
        if kind == 'FloatToInt':
            ex = a.expr if isinstance(a, VFloat) else None
            lo = hi = None
            if isinstance(a, VFloat) and a.cls == frozenset(('fin',)) and a.rng is not None:
                import math
                lo, hi = math.trunc(a.rng[0]), math.trunc(a.rng[1])     # `as` truncates toward zero (monotone)
            v = self.fresh_int(st, to, 'f2i', lo, hi)
            SYMTAB.syms[v.form.terms[0][0]].data = ('f2i', ex, a.cls if isinstance(a, VFloat) else None)
            return v
        if kind == 'FloatToFloat':
            return a
        if kind.startswith('PointerCoercion::Unsize'):
            if isinstance(a, VRef):
                tv = self.load(st, a.root, a.path)
                if isinstance(tv, VArray):
                    if a.root[0] == 'val':
                        if tv.elems and all(isinstance(e, VInt) and e.form.is_const() for e in tv.elems) and tv.ety == 'u8':
                            bs = bytes(e.form.c for e in tv.elems)
                            return VSlice(('cbytes', bs), Form.const(0), Form.const(len(bs)), ('cbytes', bs), 'u8')
                        return VSlice(('carr', id(tv)), Form.const(0), Form.const(len(tv.elems)), ('vals', tv), tv.ety)
                    # mutable local array viewed as a slice: element class only
                    ev = self.vjoin_many(st, list(tv.elems)) if tv.elems else VOpaque(None)
                    if isinstance(ev, VInt):
                        lo, hi = st.num.rng(ev.form)
                        return VSlice(('arr', a.root, a.path), Form.const(0), Form.const(len(tv.elems)), ('bytes', max(lo, 0), min(hi, 255)), 'u8')
                    return VSlice(('arr', a.root, a.path), Form.const(0), Form.const(len(tv.elems)), ('one', ev), tv.ety)
                return a
            return a
        if kind.startswith('PointerCoercion::ReifyFnPointer') or kind.startswith('PointerCoercion::ClosureFnPointer'):
            f = rv.get('fn')
            if f is not None:
                return VFn([f['key']])
            return a
        if kind.startswith('PointerCoercion') or kind == 'PtrToPtr':
            return a
        if kind == 'Transmute':
            return self.top(st, to, 'transmute', assume_inv=False)
        return self.top(st, to, 'cast', assume_inv=False)

    # ------------------------------------------------------------------ control
    def cfg(self, body):
        c = self.cfg_cache.get(body['key'])
        if c is None:
            c = self.cfg_cache[body['key']] = cfg_info(body)
        return c

    def live(self, body):
        k = ('live', body['key'])
        c = self.cfg_cache.get(k)
        if c is None:
            succ, _ = self.cfg(body)
            c = self.cfg_cache[k] = liveness(body, succ)
        return c

    def prune_dead(self, body, fid, st: State, bb):
        """drop locals of the frame that are dead at the entry of bb (never read again before being written)"""
        live_in, addr = self.live(body)
        keep = live_in[bb]
        fr = st.wframe(fid)
        for l in list(fr):
            if l not in keep and l not in addr:
                del fr[l]

    def call_local(self, st: State, key: str, args: list):
        """analyse callee inline; returns list of (state, return value)"""
        for _, k in st.stack:
            if k == key:
                # a recursive call: cut with an arbitrary value of the return type (no invariant assumed); termination is
                # an assumption listed in the evidence
                self.unmodelled['recursion:' + key] = self.unmodelled.get('recursion:' + key, 0) + 1
                rty = self.facts.body(key)['locals'][0]['ty']
                return [(st, self.top(st, rty, 'rec', assume_inv=False))]
        if len(st.stack) > 40:
            raise AnalysisIncomplete("call depth")
        ov = self.spec.call_override(self, st, key, args)
        if ov is not None:
            return ov
        body = self.facts.body(key)
        argc = body['argc']
        if len(args) != argc:
            # closure bodies take their arguments untupled
            if len(args) == 2 and isinstance(args[1], VTuple) and 1 + len(args[1].elems) == argc:
                args = [args[0]] + list(args[1].elems)
            elif len(args) == 2 and args[1] is UNIT and argc == 1:
                args = [args[0]]
            else:
                raise AnalysisIncomplete(f"arity mismatch calling {key}: {len(args)} vs {argc}")
        pre = self.spec.pre_call(self, st, key, args)
        if pre is not None:
            args = pre
        while True:
            s0 = st.copy()
            fid = s0.new_id()
            s0.frames[fid] = {i + 1: a for i, a in enumerate(args)}
            s0.owned.add(fid)
            s0.stack = s0.stack + ((fid, key),)
            try:
                rets, _, _ = self.explore(body, fid, [(s0, 0, True)], None)
                break
            except NeedJoin as e:
                if e.key != key:
                    raise
                self.loop_mode[(key, e.head)] = 'join'
        out = []
        for (s, v) in rets:
            s.frames.pop(fid, None)
            s.stack = s.stack[:-1]
            v2 = self.spec.post_call(self, s, key, args, v)
            out.append((s, v2 if v2 is not None else v))
        if len(out) > self.max_states:
            self.max_states = len(out)
        if st.stack and len(out) > self.spec.merge_limit(key, st):
            out = self.merge_exits(out)
        return out

    def call_ext_body(self, st: State, key: str, args: list):
        """analyse the dumped body of a library function on a copy of the state; None if it uses something the
        interpreter does not support (the caller then treats the call as an opaque total function, as before)"""
        saved, self.obls = self.obls, {}
        n_ev = len(self.events)
        unm = dict(self.unmodelled)
        ok = False
        try:
            res = self.call_local(st.copy(), key, list(args))
            ok = True
            return res
        except NeedJoin:
            ok = True       # a loop of an enclosing function restarts in join mode: keep what was recorded
            raise
        except Infeasible:
            ok = True
            raise
        except (AnalysisIncomplete, KeyError, TypeError, AttributeError, IndexError, ValueError, AssertionError) as e:
            self.ext_fallback[key] = f"{type(e).__name__}: {e}"[:200]
            del self.events[n_ev:]
            self.unmodelled = unm
            return None
        finally:
            trial, self.obls = self.obls, saved
            if ok:
                for k, o in trial.items():
                    cur = self.obls.get(k)
                    if cur is None:
                        self.obls[k] = o
                    else:
                        cur.visits += o.visits
                        cur.fails += o.fails
                        cur.roots |= o.roots
                        if cur.sample is None:
                            cur.sample = o.sample

    def shape(self, v):
        if isinstance(v, VAdt):
            return (v.ty, tuple((k, tuple(self.shape(f) for f in v.variants[k])) for k in sorted(v.variants)))
        if isinstance(v, VBool):
            return ('b', v.val)
        if isinstance(v, VInt):
            return 'i'
        if isinstance(v, VTuple):
            return tuple(self.shape(e) for e in v.elems)
        if isinstance(v, VSlice):
            return ('s', v.base, v.elem[0])
        if isinstance(v, VRef):
            return ('r', v.root[0])
        if isinstance(v, VFloat):
            return ('f', v.cls)
        return type(v).__name__

    def merge_exits(self, out):
        """trace-partitioning bound: exit states of a callee with the same result shape are joined once
        there are more than merge_k of them"""
        groups = {}
        order = []
        for (s, v) in out:
            try:
                k = (self.shape(v), tuple(sorted(s.frames)), tuple(sorted((a, b) for a, b in s.notes.items() if isinstance(a, str))))
            except TypeError:
                k = id(s)
            if k not in groups:
                groups[k] = []
                order.append(k)
            groups[k].append((s, v))
        res = []
        for k in order:
            g = groups[k]
            if len(g) == 1:
                res.append(g[0])
                continue
            js, jv = g[0]
            for (s2, v2) in g[1:]:
                j, _ = self.sjoin(js, s2)
                jv = self.vjoin(j, jv, v2, js, s2)
                js = j
            res.append((js, jv))
        return res

    def explore(self, body, fid, entries, loop):
        """explore paths from entries.  loop: None or (head, blocks) of the join-mode loop being iterated.
        returns (rets, backs, exits)"""
        key = body['key']
        succ, loops = self.cfg(body)
        rets, backs, exits = [], [], []
        work = list(entries)
        hv = {}
        while work:
            st, bb, is_entry = work.pop()
            if loop is not None and not is_entry:
                if bb == loop[0]:
                    backs.append(st)
                    continue
                if bb not in loop[1]:
                    exits.append((st, bb, False))
                    continue
            if bb in loops and not (loop is not None and bb == loop[0] and is_entry):
                mode = self.loop_mode.get((key, bb), 'unroll')
                if mode == 'join':
                    r, e = self.run_loop(body, fid, bb, loops[bb], st)
                    rets.extend(r)
                    work.extend(e)
                    continue
                ck = ('it', fid, bb)
                n = st.notes.get(ck, 0) + 1
                hv[bb] = hv.get(bb, 0) + 1
                if n > UNROLL or hv[bb] > HEAD_VISITS:
                    raise NeedJoin(key, bb)
                st.notes[ck] = n
            for (s2, nb) in self.exec_block(body, fid, st, bb):
                if nb is None:
                    rets.append((s2, s2.frames[fid].get(0, UNIT)))
                else:
                    work.append((s2, nb, False))
        return rets, backs, exits

    def loop_sig(self, st: State, fid):
        """trace-partitioning key at a loop head: variants of the small flag values (types named by the spec)
        among the locals of the frame (and one level inside struct locals)"""
        ptypes = self.spec.partition_types
        if not ptypes:
            return ()
        sig = []

        def one(v):
            if isinstance(v, VAdt) and v.ty in ptypes:
                item = []
                for k in sorted(v.variants):
                    fs = v.variants[k]
                    sub = None
                    if fs and isinstance(fs[0], VBool):
                        sub = fs[0].val
                    elif fs and isinstance(fs[0], VAdt):
                        sub = tuple(sorted(fs[0].variants))
                    item.append((k, sub))
                return tuple(item)
            return None
        fr = st.frames[fid]
        for l in sorted(fr):
            v = fr[l]
            r = one(v)
            if r is not None:
                sig.append((l, r))
            elif isinstance(v, VAdt) and len(v.variants) == 1:
                for i, f in enumerate(next(iter(v.variants.values()))):
                    r = one(f)
                    if r is not None:
                        sig.append((l, i, r))
                    elif isinstance(f, VBool) and self.spec.partition_nested_bools:
                        sig.append((l, i, f.val))
        return tuple(sig)

    def run_loop(self, body, fid, head, blocks, entry: State):
        """fixpoint over a loop with trace partitioning at the head (one invariant per flag signature), widening
        with thresholds, then one narrowing (descending) step that is kept only if it is still a post-fixpoint"""
        MAXP = 48
        self.prune_dead(body, fid, entry, head)
        esig = self.loop_sig(entry, fid)
        parts = {esig: entry}
        dirty = [esig]
        results = {}
        backs_of = {}
        passes = {}
        total = 0
        widened = False

        def route(b):
            bs = self.loop_sig(b, fid)
            if bs not in parts and len(parts) >= MAXP:
                bs = next(iter(parts))      # too many partitions: fold into the first one
            return bs

        while dirty:
            sg = dirty.pop(0)
            inv = parts[sg]
            total += 1
            n = passes[sg] = passes.get(sg, 0) + 1
            if total > 400 or n > MAX_LOOP_PASSES + 8:
                raise AnalysisIncomplete(f"loop at {body['key']} bb{head} did not stabilise")
            rets, backs, exits = self.explore(body, fid, [(inv.copy(), head, True)], (head, blocks))
            results[sg] = (rets, exits)
            for b in backs:
                self.prune_dead(body, fid, b, head)
            backs_of[sg] = backs
            for b in backs:
                bs = route(b)
                if bs not in parts:
                    parts[bs] = b
                    if bs not in dirty:
                        dirty.append(bs)
                    continue
                k = passes.get(bs, 0)
                widen = None if k < WIDEN_AFTER else (1 if k < WIDEN_AFTER + 3 else 2)
                j, ch = self.sjoin(parts[bs], b, widen)
                if ch:
                    if widen:
                        widened = True
                    parts[bs] = j
                    if bs not in dirty:
                        dirty.append(bs)
        if widened:
            # narrowing: recompute every invariant as the plain join of what flows into it, then re-check
            cand = {}
            incoming = {esig: [entry]}
            for sg, backs in backs_of.items():
                for b in backs:
                    incoming.setdefault(route(b), []).append(b)
            try:
                for sg, sts in incoming.items():
                    j = sts[0]
                    for s2 in sts[1:]:
                        j, _ = self.sjoin(j, s2, None)
                    cand[sg] = j
                if set(cand) == set(parts):
                    res2, ok = {}, True
                    for sg, inv in cand.items():
                        rets, backs, exits = self.explore(body, fid, [(inv.copy(), head, True)], (head, blocks))
                        res2[sg] = (rets, exits)
                        for b in backs:
                            self.prune_dead(body, fid, b, head)
                            bs = route(b)
                            if bs not in cand:
                                ok = False
                                break
                            _, ch = self.sjoin(cand[bs], b, None)
                            if ch:
                                ok = False
                                break
                        if not ok:
                            break
                    if ok:
                        results = res2
            except (AnalysisIncomplete, Infeasible):
                pass
        rets, exits = [], []
        for r, e in results.values():
            rets.extend(r)
            exits.extend(e)
        return rets, exits

    def exec_block(self, body, fid, st: State, bbi):
        """returns list of (state, next_bb | None for return)"""
        self.steps += 1
        if self.steps - self.steps_root > self.step_budget:
            raise AnalysisIncomplete("step budget exceeded")
        bb = body['blocks'][bbi]
        key = body['key']
        self.cur_fn = body['def']
        states = [st]
        for si, s in enumerate(bb['stmts']):
            kind = s['s']
            nxt = []
            self.cur_site = (bbi, s.get('sp', ''))
            for cur in states:
                try:
                    if kind == 'assign':
                        for (s2, v) in self.rvalue(cur, fid, s['rv'], body):
                            self.write_place(s2, fid, s['p'], v)
                            nxt.append(s2)
                    elif kind == 'setdiscr':
                        root, path = self.resolve(cur, fid, s['p'])
                        old = self.load(cur, root, path)
                        ty = old.ty if isinstance(old, VAdt) else None
                        if ty is None:
                            raise AnalysisIncomplete("setdiscr on non-adt")
                        t = self.facts.ty(ty)
                        nf = [v for v in t['variants'] if v['idx'] == s['v']][0]
                        fields = old.variants.get(s['v']) or tuple(UNINIT for _ in nf['fields'])
                        self.store(cur, root, path, VAdt(ty, {s['v']: fields}))
                        nxt.append(cur)
                    elif kind == 'assume':
                        v = self.operand(cur, fid, s['a'])
                        nxt.extend(self.assume(cur, self.bool_pred(v), True))
                    else:
                        nxt.append(cur)
                except Infeasible:
                    pass
            states = nxt
            if not states:
                return []
        out = []
        t = bb['term']
        tk = t['t']
        for cur in states:
            try:
                if tk == 'goto':
                    out.append((cur, t['target']))
                elif tk == 'return':
                    out.append((cur, None))
                elif tk == 'switch':
                    out.extend(self.do_switch(cur, fid, t))
                elif tk == 'assert':
                    out.extend(self.do_assert(cur, fid, t, key, bbi, body))
                elif tk == 'call':
                    out.extend(self.do_call(cur, fid, t, key, bbi, body))
                elif tk == 'drop':
                    out.append((cur, t['target']))
                elif tk == 'unreachable':
                    pass
                else:
                    raise AnalysisIncomplete(f"terminator {tk} in {key}")
            except Infeasible:
                pass
        return out

    def do_switch(self, st: State, fid, t):
        v = self.operand(st, fid, t['a'])
        cases = t['cases']
        out = []
        if isinstance(v, VBool):
            p = self.bool_pred(v)
            fp = self.float_pred_desc(p)
            if fp is not None:
                out = []
                tv = {bool(c[0]): c[1] for c in cases}
                for truth in (True, False):
                    target = tv.get(truth, t['otherwise'])
                    states = [st.copy()] if v.val is None else ([st.copy()] if v.val == truth else [])
                    for s0 in states:
                        for s2 in (self.assume(s0, p, truth) if v.val is None else [s0]):
                            s2.notes['fpath'] = s2.notes.get('fpath', ()) + ((fp[0], truth != fp[1]),)
                            out.append((s2, target))
                return out
            for cv, target in cases:
                truth = bool(cv)
                if v.val is not None:
                    if v.val == truth:
                        return [(st, target)]
                    continue
                for s2 in self.assume(st.copy(), p, truth):
                    out.append((s2, target))
            # otherwise: value differs from all listed cases
            listed = {bool(c[0]) for c in cases}
            if v.val is not None:
                return [(st, t['otherwise'])] if v.val not in listed else out
            for truth in (True, False):
                if truth not in listed:
                    for s2 in self.assume(st.copy(), p, truth):
                        out.append((s2, t['otherwise']))
            return out
        if isinstance(v, VInt):
            lo, hi = st.num.rng(v.form)
            if lo == hi:
                for cv, target in cases:
                    if cv == lo:
                        return [(st, target)]
                return [(st, t['otherwise'])]
            for cv, target in cases:
                if cv < lo or cv > hi:
                    continue
                for s2 in self.assume(st.copy(), ('cmp', 'eq', v.form, Form.const(cv)), True):
                    out.append((s2, target))
            # otherwise
            s3 = st
            alive = True
            for cv, _ in cases:
                r = self.assume(s3, ('cmp', 'ne', v.form, Form.const(cv)), True)
                if not r:
                    alive = False
                    break
                s3 = r[0]
            if alive:
                # all values listed?
                lo2, hi2 = s3.num.rng(v.form)
                if lo2 <= hi2:
                    out.append((s3, t['otherwise']))
            return out
        if isinstance(v, VOpaque) or v is UNINIT:
            for cv, target in cases:
                out.append((st.copy(), target))
            out.append((st, t['otherwise']))
            return out
        raise AnalysisIncomplete(f"switch on {v!r}")

    def op_text(self, body, o):
        def nm(p):
            l = body['locals'][p['l']]
            base = l['name'] or f"{l['ty']}"
            s = pp.pl(p)
            return s.replace(f"_{p['l']}", base, 1)
        k = o['o']
        if k in ('copy', 'move'):
            return nm(o['p'])
        if k == 'const':
            if 'ref' in o:
                return o['ref'].split('::')[-1]
            return pp.cv(o['val'])
        return k

    def do_assert(self, st: State, fid, t, key, bbi, body):
        cond = self.operand(st, fid, t['cond'])
        expected = t['expected']
        kind = t['kind']
        desc = kind + '(' + ', '.join(self.op_text(body, o) for o in t['ops']) + ')'
        if isinstance(cond, VBool):
            p = self.bool_pred(cond)
            if cond.val is not None:
                ok = cond.val == expected
            else:
                d = self.decide(st, p)
                if d is None:
                    d = self.decide(st, p, deep=True)
                ok = (d == expected) if d is not None else False
            detail = ''
            if not ok:
                vals = []
                for o in t['ops']:
                    try:
                        ov = self.operand(st, fid, o)
                        if isinstance(ov, VInt):
                            vals.append(f"{self.op_text(body, o)} = {ov.form!r} in {list(st.num.rng(ov.form))}")
                        else:
                            vals.append(f"{self.op_text(body, o)} = {ov!r}")
                    except Exception:
                        pass
                detail = '; '.join(vals)
            self.oblige('P-assert', body['def'], bbi, desc, t['sp'], ok, st, detail)
            if cond.val is not None and not ok:
                return []      # always panics on this path
            outs = self.assume(st, p, expected)
            return [(s2, t['target']) for s2 in outs]
        self.oblige('P-assert', body['def'], bbi, desc, t['sp'], False, st, f"condition {cond!r}")
        return [(st, t['target'])]

    def do_call(self, st: State, fid, t, key, bbi, body):
        c = t['callee']
        args = [self.operand(st, fid, a) for a in t['args']]
        if c.get('local') and c.get('decl') in FN_TRAIT_CALLS and len(args) == 2 and isinstance(self.closure_of(st, args[0]), VClosure):
            # closure.call_once((a, b)) as written in library code: untuple the arguments, pass the environment as the body expects it
            a1 = args[1]
            elems = list(a1.elems) if isinstance(a1, VTuple) else ([] if a1 is UNIT else [a1])
            res = self.call_closure(st, args[0], elems)
        elif c.get('local') and c.get('decl') in FN_TRAIT_CALLS and len(args) == 2 and '{closure' not in (c.get('key') or '') \
                and isinstance(args[1], (VTuple,)) and len(args[1].elems) == self.facts.body(c['key'])['argc']:
            # fn_item.call_once((a, b)): the callee is the function itself, the first argument (the zero-sized fn item) is dropped
            res = self.call_local(st, c['key'], list(args[1].elems))
        elif c.get('local'):
            res = self.call_local(st, c['key'], args)
        elif c.get('decl') in FN_TRAIT_CALLS and self.fn_item_of(c) is not None and len(args) == 2 and isinstance(args[1], VTuple):
            # fn_item.call_once((a, b)) through the compiler's shim: call the function
            res = self.call_local(st, self.fn_item_of(c), list(args[1].elems))
        elif c.get('kind') == 'indirect':
            fv = self.operand(st, fid, t['func'])
            res = self.call_value(st, fv, args, t, body, bbi)
        else:
            res = self.models.call_external(self, st, c, args, t, body, bbi, fid)
        out = []
        for (s2, v) in res:
            if t['target'] is None:
                continue
            try:
                self.write_place(s2, fid, t['dest'], v)
                out.append((s2, t['target']))
            except Infeasible:
                pass
        return out

    def fn_item_of(self, c):
        """local function named by the Self type of a Fn*::call* callee (a function item), if its body is known"""
        for x in c.get('fnargs') or ():
            if x.get('i') == 0 and x['f'].get('c') == 'fn' and x['f'].get('key') in self.facts.bodies:
                return x['f']['key']
        return None

    def closure_of(self, st, v):
        if isinstance(v, VRef):
            try:
                v = self.load(st, v.root, v.path)
            except Exception:
                return None
        return v

    def call_value(self, st: State, fv: Val, args, t=None, body=None, bbi=None):
        """call through a function value (fn pointer set / closure)"""
        if isinstance(fv, VRef):
            fv = self.load(st, fv.root, fv.path)
        if isinstance(fv, VFn):
            out = []
            for k in sorted(fv.keys):
                if k in self.facts.bodies:
                    out.extend(self.call_local(st.copy(), k, list(args)))
                else:
                    raise AnalysisIncomplete(f"indirect call to external {k}")
            return out
        if isinstance(fv, VClosure):
            return self.call_closure(st, fv, args)
        raise AnalysisIncomplete(f"indirect call through {fv!r}")

    def call_closure(self, st: State, cl, args, env_ref=None):
        """call closure value cl with explicit argument list args (already untupled)"""
        if isinstance(cl, VRef):
            env_ref = cl
            cl = self.load(st, cl.root, cl.path)
        if isinstance(cl, VFn):
            return self.call_value(st, cl, args)
        if not isinstance(cl, VClosure):
            raise AnalysisIncomplete(f"closure call on {cl!r}")
        body = self.facts.body(cl.key)
        # closure env is passed by reference for Fn/FnMut and by value for FnOnce bodies
        envty = body['locals'][1]['ty'] if body['argc'] >= 1 else ''
        if envty.startswith('&'):
            if env_ref is None:
                if all(isinstance(u, (VRef, VSlice, VFn)) for u in cl.upvars):
                    # the environment itself is never mutated (captures are references): immutable temporary
                    env_ref = VRef(('val', cl))
                else:
                    oid = st.new_id()
                    st.objs[oid] = cl
                    env_ref = VRef(('obj', oid))
            env = env_ref
        else:
            env = cl
        return self.call_local(st, cl.key, [env] + list(args))

    # ------------------------------------------------------------------ roots
    def run_kernel(self):
        """analyse the calendar kernel functions out of line under their preconditions"""
        for key in self.spec.kernel_roots():
            self.root = f"kernel:{key}"
            st = State()
            args = self.spec.kernel_args(self, st, key)
            self.spec.inline_kernel = True
            try:
                res = self.call_local(st, key, args)
            finally:
                self.spec.inline_kernel = False
            if key == 'common::date2julian':
                lo = min(s.num.rng(v.form)[0] for s, v in res)
                hi = max(s.num.rng(v.form)[1] for s, v in res)
                self.spec.d2j_range = (lo, hi)
                self.kernel_d2j = (args, res)

    def run_internal(self, key, variant=None):
        """analyse an internal (non-public) function out of line under its precondition"""
        self.root = key
        self.events = []
        self.steps_root = self.steps
        st = State()
        args = self.spec.internal_args(self, st, key)
        args = self.spec.apply_internal_variant(self, st, args, variant)
        self.spec.inline_assembly = True
        try:
            res = self.call_local(st, key, args)
        finally:
            self.spec.inline_assembly = False
        for (s2, v) in res:
            self.spec.check_exit(self, s2, v)
        return st, args, res

    def run_root(self, key, variant=None):
        self.root = key
        self.events = []
        self.steps_root = self.steps
        body = self.facts.body(key)
        st = State()
        args = self.spec.root_args(self, st, key, body, variant)
        saved = self.loop_mode
        if variant is not None and variant.startswith('pic:'):
            self.loop_mode = {}       # concrete pictures: the field loop is iterated exactly (no join)
        try:
            res = self.call_local(st, key, args)
        finally:
            self.loop_mode = saved
        for (s2, v) in res:
            self.spec.check_exit(self, s2, v)
        return st, args, res
