"""Stage E1f: the two places where the library scales fractional seconds through f64 (C05 half-up rounding of a parsed
fraction, C04 truncation of a formatted fraction).

`format::parse_fraction(text, max_len)` and `NaiveDateTime::fraction(p)` are run by E1's abstract interpreter once per
class (max_len = 1..9 with max_len symbolic digit bytes; p = 0..9 with a symbolic microsecond field).  On every exit the
interpreter has the returned value as an expression over the digit symbols - today
`f2i(round(i2f(d0*10^(k-1) + ... + d(k-1)) * c_k))` with `c_k` an element of `FRACTION_FACTOR`, in a rewritten tree
possibly an integer expression with quotients.  The expression is then DECIDED, not sampled:

  float forms   by an error analysis in exact rational arithmetic over the constant `c` (python `fractions`):
                  FR  round(fl(L*c)) = (L + m/2) div m  for all 0 <= L <= Lmax   if  eps := c*m - 1 >= 0  and
                      (1 - 1/(m*(Kmax + 1/2))) * (1 + eps) <= 1 - 2^-52          (below a midpoint: strictly below after rounding;
                      at or above a midpoint: the exact product is >= the representable midpoint, rounding is monotone)
                  FT  trunc(fl(U op c)) = floor(U * 10^(p-6))                    (same argument on integers instead of midpoints;
                      for p > 6 the product must be the integer itself: -eps < 2^-54)
  integer forms by normalising nested truncating quotients of non-negative forms to floor(P / M) and comparing P, M
                with the statement's (X*10^6 + 10^k/2, 10^k)

  When the proof rule does not apply the expression is evaluated on witness digit strings (tails 4/5/9/0 around the
  midpoint): a differing witness is a VIOLATION with the digits in the report; no witness and no proof is reported as
  "undecided" in the notes, never as a violation.  Evaluating the extracted expression is a refutation step of the
  analysis - no code of /repo is run.

Not in pipeline.E1_SOURCES: the stage has its own cache file (`e1f-<cfg>-<hash>.json`).
"""
from __future__ import annotations

import json
import math
import sys
from fractions import Fraction

from .facts import AnalysisIncomplete, Facts
from .lin import Form, SYMTAB, tdiv
from .values import VAdt, VArray, VFloat, VInt, VRef, VSlice, VTuple

PF = 'format::parse_fraction'
FRAC = 'format::NaiveDateTime::fraction'
TWO52 = Fraction(1, 1 << 52)
TWO54 = Fraction(1, 1 << 54)


class Undecided(Exception):
    pass


# ----------------------------------------------------------------------------- evaluation of an extracted expression
def rust_round(x: float) -> float:
    if x < 0:
        return -rust_round(-x)
    r = math.floor(x)
    return float(r + 1) if x - r >= 0.5 else float(r)


def eval_float(t, env) -> float:
    k = t[0] if isinstance(t, tuple) else None
    if k == 'const':
        return float(t[1])
    if k == 'i2f':
        return float(eval_form(t[1], env))
    if k == 'neg':
        return -eval_float(t[1], env)
    if k == 'round':
        return rust_round(eval_float(t[1], env))
    if k in ('add', 'sub', 'mul', 'div'):
        a, b = eval_float(t[1], env), eval_float(t[2], env)
        if k == 'div':
            if b == 0.0:
                raise Undecided('division by zero in witness evaluation')
            return a / b
        return a + b if k == 'add' else a - b if k == 'sub' else a * b
    raise Undecided(f"float node {k!r}")


def eval_form(f: Form, env) -> int:
    v = f.c
    for s, k in f.terms:
        v += k * eval_sym(s, env)
    return v


def eval_sym(s, env) -> int:
    if s in env:
        return env[s]
    info = SYMTAB.syms[s]
    if info.kind == 'div':
        g, c = info.data
        r = tdiv(eval_form(g, env), c)
    elif info.data and info.data[0] == 'f2i' and info.data[1] is not None:
        x = eval_float(info.data[1], env)
        if math.isnan(x) or math.isinf(x):
            raise Undecided('non-finite float in witness evaluation')
        r = math.trunc(x)
        if not (info.lo <= r <= info.hi):
            raise Undecided('saturating float cast in witness evaluation')
    elif info.data and info.data[0] == 'wrap':
        raise Undecided('wrapping cast')
    else:
        raise Undecided(f"symbol {info.name} ({info.kind}) has no defining expression")
    env[s] = r
    return r


# ----------------------------------------------------------------------------- proof rules
def float_scale(tree):
    """tree = [round](L (*|/) c)  ->  (rounded?, L form, exact scale as a Fraction, text) or None"""
    rounded = False
    t = tree
    if isinstance(t, tuple) and t[0] == 'round':
        rounded, t = True, t[1]
    if not isinstance(t, tuple) or t[0] not in ('mul', 'div'):
        return None
    a, b = t[1], t[2]
    if t[0] == 'mul' and isinstance(a, tuple) and a[0] == 'const':
        a, b = b, a
    if not (isinstance(a, tuple) and a[0] == 'i2f' and isinstance(b, tuple) and b[0] == 'const'):
        return None
    c = float(b[1])
    if math.isnan(c) or math.isinf(c) or c <= 0.0:
        return None
    s = Fraction(c) if t[0] == 'mul' else 1 / Fraction(c)
    return rounded, a[1], s, f"L {'*' if t[0] == 'mul' else '/'} {b[1]}", t[0]


def prove_round(scale, op, lmax, num, den):
    """round_half_away(fl(L*scale)) == (L*num + den/2) div den for all 0 <= L <= lmax?  (num/den = 10^(6-k))
    returns (True, why) | (None, why)"""
    want = Fraction(num, den)
    if lmax >= 1 << 53:
        return None, 'integer operand not exactly representable'
    if want.denominator == 1:
        # scaling up: exact when the constant is the integer and the product stays below 2^53
        if scale == want and lmax * want < (1 << 53):
            return True, f"constant is exactly {want}, product < 2^53: exact, rounding an integer changes nothing"
        return None, f"constant is {float(scale)!r}, statement scales by {want}"
    m = want.denominator
    eps = scale * m - 1
    if eps < 0:
        return None, f"constant lies below 1/{m} (relative {float(eps):.3e}): a midpoint product can fall below .5"
    kmax = lmax // m + 1
    lhs = (1 - Fraction(1, m) / (kmax + Fraction(1, 2))) * (1 + eps) * (1 + (TWO54 * 2 if op == 'mul' else 0))
    if lhs <= 1 - TWO52:
        return True, (f"constant = (1/{m})*(1+{float(eps):.3e}) >= 1/{m}; below a midpoint the product stays under it by more than an ulp "
                      f"(K <= {kmax}); at or above it the exact product is >= the representable midpoint")
    return None, f"error bound too weak: relative error {float(eps):.3e} with K up to {kmax}"


def prove_trunc(scale, op, umax, num, den):
    """trunc(fl(U*scale)) == (U*num) div den for all 0 <= U <= umax?"""
    want = Fraction(num, den)
    if umax >= 1 << 53:
        return None, 'integer operand not exactly representable'
    if want.denominator == 1:
        M = want.numerator
        if scale == want and umax * M < (1 << 53):
            return True, f"constant is exactly {M}: exact product"
        eps = scale / M - 1
        if -eps < TWO54 and eps < TWO54 and umax * M < (1 << 52) and umax * M * abs(eps) * 4 < 1:
            return True, f"|relative error of the constant| = {float(abs(eps)):.3e} < 2^-54: the quotient rounds to the integer U*{M} itself"
        return None, f"constant {float(scale)!r} is not within 2^-54 of {M}"
    m = want.denominator
    eps = scale * m - 1
    if eps < 0:
        return None, f"constant lies below 1/{m}: an exact multiple can fall below its integer"
    kmax = umax // m + 1
    lhs = (1 - Fraction(1, m) / (kmax + 1)) * (1 + eps) * (1 + (TWO54 * 2 if op == 'mul' else 0))
    if lhs <= 1 - TWO52:
        return True, f"constant = (1/{m})*(1+{float(eps):.3e}) >= 1/{m}; a non-multiple stays under the next integer by more than an ulp (K <= {kmax})"
    return None, f"error bound too weak: relative error {float(eps):.3e} with K up to {kmax}"


def int_norm(st, f: Form, depth=0):
    """f = floor(P / M) with P a form without quotient symbols, P >= 0 on this path; else None"""
    divs = [(s, k) for s, k in f.terms if SYMTAB.syms[s].kind == 'div']
    if not divs:
        return f, 1
    if len(divs) != 1 or depth > 12:
        return None
    s, k = divs[0]
    rest = f.sub(Form.sym(s, k))
    if k != 1 or rest.terms:
        return None
    g, c = SYMTAB.syms[s].data
    if c <= 0:
        return None
    inner = int_norm(st, g, depth + 1)
    if inner is None:
        return None
    P, M = inner
    lo, _ = st.num.rng(P)
    if lo < 0 or rest.c < 0:
        return None
    # floor(floor(P/M)/c) + r = floor((P + r*M*c) / (M*c))        (P >= 0, r >= 0)
    return P.addc(rest.c * M * c), M * c


# ----------------------------------------------------------------------------- the two class runs
def _mk():
    from .interp import Interp, State
    return Interp, State


def digits_value(ds, k):
    X = Form.const(0)
    for i in range(k):
        X = X.add(ds[i].form.addc(-48).scale(10 ** (k - 1 - i)))
    return X


def witnesses(k):
    """digit strings of length k around the rounding midpoints"""
    if k == 0:
        return ['']
    heads = ['0' * 6, '9' * 6, '123456', '000001', '499999', '999998']
    out = []
    if k <= 6:
        for h in heads:
            out.append(h[:k])
            out.append(h[6 - k:])
        out += ['5' * k, '4' * k, '1' + '0' * (k - 1)]
        return sorted(set(out))
    t = k - 6
    tails = set()
    alphabet = '0459'
    def rec(p):
        if len(p) == t:
            tails.add(p)
            return
        for ch in alphabet:
            rec(p + ch)
    rec('')
    for h in heads:
        for tl in tails:
            out.append(h + tl)
    return sorted(set(out))


def decide_value(st, V, X, lmax_of, num, den, mode, sym_env_builder, k, what):
    """V: VInt returned; X: the integer the consumed digits denote (Form); statement: (X*num + den/2) div den (mode 'round')
    or (X*num) div den (mode 'trunc').  returns (ok: True|False|None, why)"""
    if not isinstance(V, VInt):
        return None, f"returned value is {V!r}"
    f = V.form
    proof = None
    why = ''
    # float form
    if len(f.terms) == 1 and f.c == 0 and f.terms[0][1] == 1:
        info = SYMTAB.syms[f.terms[0][0]]
        if info.data and info.data[0] == 'f2i' and info.data[1] is not None:
            fs = float_scale(info.data[1])
            if fs is not None:
                rounded, L, scale, txt, op = fs
                if st.num.eq0(L.sub(X)):
                    lo, hi = st.num.rng(L)
                    if lo >= 0 and info.data[2] == frozenset(('fin',)):
                        if mode == 'round' and rounded:
                            proof, why = prove_round(scale, op, hi, num, den)
                        elif mode == 'trunc' and not rounded:
                            proof, why = prove_trunc(scale, op, hi, num, den)
                        elif mode == 'round' and not rounded:
                            proof, why = None, 'the product is truncated, the statement rounds half-up'
                        else:
                            proof, why = None, 'the quotient is rounded, the statement truncates'
                        why = f"f2i({'round(' if rounded else ''}{txt}{')' if rounded else ''}): {why}"
                else:
                    why = f"float operand {L!r} is not the value of the consumed digits {X!r}"
            else:
                why = f"float expression {info.data[1]!r} is not L*c or L/c"
    if proof is None and not why.startswith('f2i') and all(SYMTAB.syms[s].kind in ('var', 'div') for s, _ in f.terms):
        # integer form
        n = int_norm(st, f)
        if n is not None:
            P, M = n
            half = den // 2 if mode == 'round' else 0
            # floor(P/M) vs floor((X*num + half)/den): scale to a common denominator
            l = M * den // math.gcd(M, den)
            A = P.scale(l // M)
            B = X.scale(num).addc(half).scale(l // den)
            if st.num.eq0(A.sub(B)):
                proof, why = True, f"integer form floor(({P!r})/{M}) equals the statement's quotient"
            else:
                why = f"integer form floor(({P!r})/{M}) vs statement floor(({X.scale(num).addc(half)!r})/{den})"
        elif not f.terms or all(SYMTAB.syms[s].kind == 'var' for s, _ in f.terms):
            pass
        else:
            why = why or f"integer expression {f!r} is not a nest of quotients"
    if proof:
        return True, why
    # refutation by witness evaluation of the extracted expression
    tried = 0
    try:
        for w in witnesses(k):
            env = sym_env_builder(w)
            x = eval_form(X, dict(env))
            got = eval_form(f, dict(env))
            exp = (x * num + (den // 2 if mode == 'round' else 0)) // den
            tried += 1
            if got != exp:
                return False, f"{what} {w!r}: the returned expression {f!r} evaluates to {got}, the statement gives {exp} ({why})"
    except Undecided as e:
        return None, f"undecided ({why or 'no proof rule applies'}; witness evaluation: {e})"
    return None, f"undecided ({why or 'no proof rule applies'}; {tried} witness strings agree)"


def run_parse_fraction(I, State, recs, notes):
    if PF not in I.facts.bodies:
        notes.append(f"{PF}: no such function (renamed or inlined); the half-up rounding clause is undecided")
        return 0
    exits = 0
    for ml in range(0, 10):
        st = State()
        ds = [I.fresh_int(st, 'u8', f'd{i}', 48, 57) for i in range(ml)]
        term = [I.fresh_int(st, 'u8', 'next', 0, 255)] if ml else []
        arr = VArray(ds + term, 'u8')
        sl = VSlice(('carr', id(arr)), Form.const(0), Form.const(len(arr.elems)), ('vals', arr), 'u8')
        res = I.call_local(st, PF, [sl, VInt(Form.const(max(ml, 1)), 'usize')])
        for s2, v in res:
            if not isinstance(v, VAdt) or v.single() is None:
                recs.append(('C05', f"parse_fraction [max_len {ml}]: result shape", None, repr(v)[:200]))
                continue
            if v.single() != 0:
                notes.append(f"parse_fraction [max_len {ml}]: an Err exit on digit input (not decided here)")
                continue
            t = v.variants[0][0]
            if not isinstance(t, VTuple) or len(t.elems) != 2 or not isinstance(t.elems[1], VSlice):
                recs.append(('C05', f"parse_fraction [max_len {ml}]: result shape", None, repr(t)[:200]))
                continue
            V, rest = t.elems
            lo, hi = s2.num.rng(rest.off)
            if lo != hi or rest.base != sl.base:
                recs.append(('C05', f"parse_fraction [max_len {ml}]: digits consumed", None, f"rest offset in [{lo}, {hi}]"))
                continue
            k = lo
            if k > ml:
                continue        # the arbitrary following byte taken as a digit: only reachable with max_len > ml, covered by the run ml+1
            exits += 1
            X = digits_value(ds, k)
            syms = [d.form.terms[0][0] for d in ds]

            def env_of(w, syms=syms, term=term):
                e = {syms[i]: ord(ch) for i, ch in enumerate(w)}
                for j in range(len(w), len(syms)):
                    e[syms[j]] = 48
                if term:
                    e[term[0].form.terms[0][0]] = 32
                return e
            num, den = (10 ** (6 - k), 1) if k <= 6 else (1, 10 ** (k - 6))
            ok, why = decide_value(s2, V, X, None, num, den, 'round', env_of, k, 'fraction digits')
            recs.append(('C05', f"parse_fraction: {k} digits denote round-half-up(0.d1..d{k} * 10^6) microseconds"
                         if k > 6 else f"parse_fraction: {k} digits denote d1..d{k} * 10^{6 - k} microseconds", ok, why))
    return exits


def run_fraction(I, State, recs, notes):
    if FRAC not in I.facts.bodies:
        notes.append(f"{FRAC}: no such function; the truncation clause of FFn is undecided")
        return 0
    body = I.facts.body(FRAC)
    selfty = body['locals'][1]['ty']
    exits = 0
    for p in range(0, 10):
        st = State()
        me = I.top(st, selfty, 'self')
        rec = st.objs.get(me.root[1]) if isinstance(me, VRef) and me.root[0] == 'obj' else None
        if not isinstance(rec, VAdt):
            notes.append(f"{FRAC}: receiver is not a record reference; undecided")
            return 0
        t = I.facts.types[rec.ty]
        fidx = {f['name']: i for i, f in enumerate(t['variants'][0]['fields'])}
        if 'usec' not in fidx:
            notes.append(f"{FRAC}: record has no field `usec`; undecided")
            return 0
        u = rec.variants[0][fidx['usec']]
        if not isinstance(u, VInt) or len(u.form.terms) != 1:
            notes.append(f"{FRAC}: usec field is {u!r}; undecided")
            return 0
        us = u.form.terms[0][0]
        st.num.set_lo(us, 0)
        st.num.set_hi(us, 999_999)
        res = I.call_local(st, FRAC, [me, VInt(Form.const(p), 'u8')])
        for s2, v in res:
            exits += 1
            num, den = (1, 10 ** (6 - p)) if p <= 6 else (10 ** (p - 6), 1)

            def env_of(w, us=us):
                return {us: int(w)}
            ok, why = decide_value(s2, v, u.form, None, num, den, 'trunc', env_of, 6, 'microseconds')
            recs.append(('C04', f"NaiveDateTime::fraction({p}): the microseconds truncated to {p} digits" if p <= 6 else
                         f"NaiveDateTime::fraction({p}): the microseconds times 10^{p - 6}", ok, why))
    return exits


def run(facts_path):
    from .models import Models
    from .spec import Spec
    Interp, State = _mk()
    f = Facts(facts_path)
    spec = Spec(f)
    I = Interp(f, spec, Models(f))
    recs, notes = [], []
    out = {'records': [], 'notes': notes, 'exits': {}}
    for name, fn in (('parse_fraction', run_parse_fraction), ('fraction', run_fraction)):
        try:
            out['exits'][name] = fn(I, State, recs, notes)
        except AnalysisIncomplete as e:
            notes.append(f"{name}: the interpreter could not analyse the function ({str(e)[:200]}); clause undecided")
            out['exits'][name] = 0
        except Exception as e:      # another shape than this driver expects: nothing decided, nothing claimed
            notes.append(f"{name}: the stage could not drive the function ({type(e).__name__}: {str(e)[:160]}); clause undecided")
            out['exits'][name] = 0
    seen = set()
    for prop, clause, ok, why in recs:
        key = (prop, clause, ok)          # one record per clause and verdict (the runs for different max_len repeat the shorter counts)
        if key in seen:
            continue
        seen.add(key)
        out['records'].append({'prop': prop, 'clause': clause, 'ok': ok, 'detail': why})
    # panic / invariant obligations met inside the two functions are E1's business (they are analysed under their roots)
    return out


def main():
    out = run(sys.argv[1])
    with open(sys.argv[2], 'w') as fh:
        json.dump(out, fh, indent=1, default=str)
    n = len(out['records'])
    print(f"floatform: {n} records, {sum(1 for r in out['records'] if r['ok'])} proved, "
          f"{sum(1 for r in out['records'] if r['ok'] is False)} refuted, {sum(1 for r in out['records'] if r['ok'] is None)} undecided")


if __name__ == '__main__':
    main()
