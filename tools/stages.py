#!/usr/bin/env python3
"""Triage helper: run only the additional stages (E1f float forms, E1g constant orderings, E1h decimal digits, E1i meridian
map) against /repo HEAD + a patch, in a scratch worktree (removed afterwards).  ~15 s per patch: fact extraction + four stage runs.

usage: stages.py <patch.diff> [...]      prints per patch the refuted / undecided records and the notes
"""
import json, os, shutil, subprocess, sys, tempfile
VERIF = os.path.dirname(os.path.dirname(os.path.abspath(__file__)))
STAGES = ['floatform', 'cmpstage', 'digits', 'hour12', 'numparse', 'lexaccept', 'weekglue', 'names']


def sh(cmd, cwd=None, env=None):
    r = subprocess.run(cmd, shell=True, cwd=cwd, capture_output=True, text=True, env=env)
    return r.returncode, r.stdout + r.stderr


def one(patch):
    wt = tempfile.mkdtemp(prefix='stg-', dir='/tmp'); os.rmdir(wt)
    facts = wt + '-facts.json'
    try:
        sh(f"git -C /repo worktree add -q --detach {wt} HEAD")
        if patch != '-':
            rc, out = sh(f"git apply --whitespace=nowarn {patch}", wt)
            if rc:
                return {'error': 'apply failed: ' + out[-200:]}
        env = dict(os.environ, VERIF_REPO=wt)
        rc, out = sh(f"{VERIF}/extract.sh oracle,serde {facts} on", VERIF, env)
        if rc:
            return {'error': 'extract failed: ' + out[-300:]}
        res = {}
        for s in STAGES:
            o = f"{wt}-{s}.json"
            rc, out = sh(f"{sys.executable} -m sda.{s} {facts} {o}", VERIF)
            if rc or not os.path.exists(o):
                res[s] = {'error': out[-400:]}
                continue
            d = json.load(open(o)); os.remove(o)
            res[s] = {'refuted': [r for r in d['records'] if r['ok'] is False], 'undecided': [r for r in d['records'] if r['ok'] is None],
                      'proved': sum(1 for r in d['records'] if r['ok']), 'notes': d['notes']}
        return res
    finally:
        sh(f"git -C /repo worktree remove --force {wt}"); shutil.rmtree(wt, ignore_errors=True)
        if os.path.exists(facts): os.remove(facts)


if __name__ == '__main__':
    for p in sys.argv[1:]:
        r = one(os.path.abspath(p) if p != '-' else p)
        if 'error' in r:
            print(p, 'ERROR', r['error']); continue
        line = ' '.join(f"{s}:{'ERR' if 'error' in v else str(v['proved'])+'p/'+str(len(v['refuted']))+'r/'+str(len(v['undecided']))+'u/'+str(len(v['notes']))+'n'}" for s, v in r.items())
        print(p, line, flush=True)
        for s, v in r.items():
            if 'error' in v:
                print('    ', s, 'ERROR', v['error'][-300:]); continue
            for x in v['refuted'][:3]: print('     REFUTED', s, x['clause'][:90], '--', x['detail'][:160])
            for x in v['undecided'][:2]: print('     undecided', s, x['clause'][:90], '--', x['detail'][:120])
            for x in v['notes'][:2]: print('     note', s, x[:200])
