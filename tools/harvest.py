#!/usr/bin/env python3
"""Confirm an agent's deliveries (/tmp/wt/<Cxx>/_out/m<k>/) and store the confirmed ones as /verif/seeded/<Cxx>-m<N>/.

usage: harvest.py <Cxx> [round text]

Each delivery is confirmed by tools/seeded.py confirm in a scratch worktree (patch applies, 52 baseline + all-features lib
tests pass with the patch, demo fails with / passes without); only confirmed ones are stored, with meta.json.
"""
import glob
import json
import os
import shutil
import sys

sys.path.insert(0, os.path.dirname(os.path.abspath(__file__)))
import seeded  # noqa: E402

VERIF = '/verif'
props = {json.loads(l)['id']: json.loads(l) for l in open(f'{VERIF}/properties.jsonl')}


def main():
    pid = sys.argv[1]
    rnd = sys.argv[2] if len(sys.argv) > 2 else 'fifth round'
    for d in sorted(glob.glob(f'/tmp/wt/{pid}/_out/m*')):
        if not (os.path.exists(f'{d}/patch.diff') and os.path.exists(f'{d}/demo.rs')):
            print(d, 'incomplete delivery')
            continue
        r = seeded.confirm(d)
        if not r.get('confirmed'):
            print(d, 'NOT confirmed', json.dumps({k: v for k, v in r.items() if k not in ('tests_default',)})[:900])
            continue
        n = 1
        while os.path.exists(f'{VERIF}/seeded/{pid}-m{n}'):
            n += 1
        sid = f'{pid}-m{n}'
        dst = f'{VERIF}/seeded/{sid}'
        os.makedirs(dst)
        for f in ('patch.diff', 'demo.rs', 'notes.md'):
            if os.path.exists(f'{d}/{f}'):
                shutil.copy(f'{d}/{f}', f'{dst}/{f}')
        notes = open(f'{dst}/notes.md').read().strip() if os.path.exists(f'{dst}/notes.md') else ''
        meta = {
            'id': sid, 'breaks_property': pid, 'property_title': props[pid]['title'],
            'origin': f'independent sub-agent, {rnd} (told which earlier changes to avoid), given only the property text and a scratch worktree (tools/mkprompt.py); nothing from /verif',
            'needs_to_manifest': 'see notes.md (agent-written): ' + ' '.join(notes.split())[:700],
            'confirmed': {'by': 'tools/seeded.py confirm (scratch worktree of /repo HEAD under /tmp, removed afterwards)',
                          'patch_applies': True, 'baseline_52_tests_pass_with_patch': True, 'all_features_lib_tests_pass_with_patch': True,
                          'demo_fails_with_patch': True, 'demo_passes_without_patch': True},
            'commands': ['git apply patch.diff', 'cargo test --offline --lib', 'cargo test --offline --all-features --lib',
                         'cp demo.rs tests/demo.rs && cargo test --offline --all-features --test demo',
                         'git checkout -- src && cargo test --offline --all-features --test demo'],
            'detected_by': None,
        }
        json.dump(meta, open(f'{dst}/meta.json', 'w'), indent=1)
        print(d, '->', sid, 'confirmed')


if __name__ == '__main__':
    main()
