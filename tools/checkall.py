#!/usr/bin/env python3
"""Run several property checks in ONE process (facts and E1 results loaded once) - a speed-up for tools/matrix.py and
tools/benign.py only; the registered commands are ./check <id>.  Prints each check's output followed by `EXIT <id> <code>`.

usage: checkall.py [--tier quick] C01 C02 ...
"""
import io, os, sys, time, contextlib
HERE = os.path.dirname(os.path.dirname(os.path.abspath(__file__)))
sys.path.insert(0, HERE)
os.chdir(HERE)
from sda import rules, pipeline  # noqa: E402
from sda.facts import AnalysisIncomplete, Facts  # noqa: E402

_json, _facts = {}, {}
_load = pipeline.load_json


def load_json(p):
    if p not in _json:
        _json[p] = _load(p)
    return _json[p]


def facts(p):
    if p not in _facts:
        _facts[p] = Facts(p)
    return _facts[p]


pipeline.load_json = load_json
rules.Facts = facts

if __name__ == '__main__':
    a = sys.argv[1:]
    tier = 'quick'
    if '--tier' in a:
        i = a.index('--tier')
        tier = a[i + 1]
        del a[i:i + 2]
    for pid in a:
        t0 = time.time()
        try:
            rep = rules.run_property(pid, tier)
            rep.wall_s = round(time.time() - t0, 2)
            rep.seed = 0
            code = rep.finish()
        except AnalysisIncomplete as e:
            print(f"ANALYSIS-INCOMPLETE property={pid} {e}")
            code = 2
        except Exception as e:
            print(f"ANALYSIS-INCOMPLETE property={pid} internal error of the checker: {type(e).__name__}: {e}")
            code = 2
        print(f"EXIT {pid} {code}", flush=True)
