#!/usr/bin/env python3
"""Print the prompt given to an independent sub-agent that seeds property-breaking changes.

usage: mkprompt.py <property id> [n]

The prompt contains only the property text and the scratch worktree path
(/tmp/wt/<id>) -- nothing from /verif -- so that what the agent writes is independent of
what the checks can already detect.
"""
import json
import sys

props = {json.loads(l)['id']: json.loads(l) for l in open('/verif/properties.jsonl')}


def prompt(pid, n=2, wt=None):
    p = props[pid]
    wt = wt or f'/tmp/wt/{pid}'
    return f"""You are helping test a verification framework by producing realistic *bug injections* for a Rust library. Work ONLY inside the git worktree at {wt} (a checkout of the Rust crate `sqldatetime`: SQL/Oracle-style DATE, TIME, TIMESTAMP, INTERVAL types). Do NOT read or touch /verif or /repo or any other /tmp/wt/* directory. The sandbox has no network; always pass --offline to cargo (e.g. `cargo test --offline`, `cargo test --offline --all-features`).

The property that the library is supposed to satisfy:

TITLE: {p['title']}
STATEMENT: {p['statement']}
QUANTIFIED OVER: {p['quantifier']['text']}

Your task: produce {n} DIFFERENT, independent source changes (at different code sites / mechanisms) to the library under {wt}/src, each of which:
  1. BREAKS the property above (for at least one input / sequence of operations),
  2. still COMPILES (with default features AND with `--all-features`),
  3. still PASSES the entire existing test suite unchanged: `cargo test --offline` (52 unit tests + doctests) and `cargo test --offline --all-features` must both be fully green with the change applied. Do not edit, delete or add tests inside src/ for this.
  4. is REALISTIC: the kind of slip or "optimisation"/refactor a maintainer could plausibly make (off-by-one in a guard, a dropped check, a wrong constant, an operand swap, a narrowing cast, a changed table entry, a branch handled wrongly, using an unchecked constructor, etc.), not sabotage like `if x == 12345 {{ panic!() }}`.
  5. needs something SPECIFIC to manifest: an unusual input, a boundary value, a particular combination of fields, a multi-step sequence, or two cooperating sites that each look fine alone. It must NOT be something ordinary use would expose at once (ordinary values like 2024-05-17 12:34:56 through the common API should still behave correctly).

For each change k (k = 1..{n}) deliver, under {wt}/_out/m<k>/ :
  - patch.diff : output of `git diff` for ONLY that change relative to the pristine HEAD (so that `git apply patch.diff` on a clean checkout reproduces it). Each patch is independent (made from a clean tree), not stacked.
  - demo.rs : an integration test file (to be placed in tests/demo.rs of the crate; uses only the crate's public API, `use sqldatetime::*;`; enable feature-gated items only if needed and then say which features) with one or more #[test] functions that PASS on the pristine tree and FAIL with the patch applied.
  - notes.md : 5-15 lines: which site you changed and why it is plausible; exactly what input/sequence is needed for it to manifest; the commands you ran and their results (existing tests green with patch; demo fails with patch; demo passes without patch).

Procedure you must actually follow and verify yourself for each change: start from a clean tree (`git -C {wt} checkout -- . `), make the edit, run both existing-test commands (all green), copy demo.rs to tests/demo.rs and run `cargo test --offline --all-features --test demo` (must FAIL), save `git diff -- src > _out/m<k>/patch.diff`, then revert src (`git checkout -- src`) and run the demo again (must PASS), then remove tests/demo.rs. Leave the worktree's src pristine at the end; keep only _out/. Do not commit anything.

Read the source first (src/*.rs; lib.rs has the documented semantics) to choose subtle sites. Prefer changes whose wrong behaviour shows only at boundaries (range limits, before 1970 / negative counts, leap years, century years, month ends, 23:59:59, very long or odd input text, extreme numeric arguments). The {n} changes should be in different functions and exploit different mechanisms. At the end reply with a short summary listing for each change: file/function changed, what breaks, and the triggering input."""


if __name__ == '__main__':
    pid = sys.argv[1]
    n = int(sys.argv[2]) if len(sys.argv) > 2 else 2
    print(prompt(pid, n))
