#!/usr/bin/env python3
"""Rewrite the table of DESIGN.md section 12 (between the BEGIN/END markers) from seeded/*/meta.json.

usage: mkdetect_table.py [matrix.json ...]   # optional: first merge detection results of tools/matrix.py runs into the meta files
"""
import json, os, re, sys
VERIF = os.path.dirname(os.path.dirname(os.path.abspath(__file__)))
SEEDED = os.path.join(VERIF, 'seeded')


def merge(path):
    m = json.load(open(path))
    for sid, res in m.items():
        p = os.path.join(SEEDED, sid, 'meta.json')
        if not os.path.exists(p) or 'error' in res:
            continue
        meta = json.load(open(p))
        det = [c for c, r in res.items() if isinstance(r, dict) and r.get('violations')]
        inc = [c for c, r in res.items() if isinstance(r, dict) and r.get('incomplete')]
        meta['detected_by'] = det
        meta['detection_run'] = {
            'how': 'tools/matrix.py: scratch worktree of /repo HEAD + patch.diff, VERIF_REPO pointing at it, every registered quick check run, worktree removed afterwards '
                   '(same verdicts as the registered procedure: git -C /repo apply, ./check, git -C /repo checkout -- .)',
            'first_report': {c: res[c]['first'][:300] for c in det[:3]},
            'own_property_check_fires': meta['breaks_property'] in det,
            'analysis_incomplete': inc,
        }
        json.dump(meta, open(p, 'w'), indent=1)


def what(meta):
    n = meta.get('needs_to_manifest', '')
    n = n.split('(agent-written): ', 1)[-1]
    n = re.sub(r'^#+\s*', '', n)
    n = re.sub(r'\s+', ' ', n)
    return n[:150].replace('|', '/')


def table():
    rows = []
    tot = det = own = 0
    for sid in sorted(os.listdir(SEEDED)):
        p = os.path.join(SEEDED, sid, 'meta.json')
        if not os.path.exists(p):
            continue
        meta = json.load(open(p))
        d = meta.get('detected_by') or []
        tot += 1
        det += bool(d)
        own += meta['breaks_property'] in d
        first = ''
        fr = (meta.get('detection_run') or {}).get('first_report') or {}
        if fr:
            c0 = meta['breaks_property'] if meta['breaks_property'] in fr else next(iter(fr))
            first = f"{c0}: " + re.sub(r'\s+', ' ', fr[c0])[:170].replace('|', '/')
        rows.append(f"| {sid} | {what(meta)} | {', '.join(d) if d else '**missed**'} | {first} |")
    head = (f"{tot} confirmed changes; {det} reported by at least one registered quick check, {own} of them by the check of the property the "
            f"change was written against; {tot - det} missed (discussed below the table).\n\n"
            "| change | what it does (agent's words, truncated) | checks that report it | first report |\n|---|---|---|---|\n")
    return head + '\n'.join(rows) + '\n'


if __name__ == '__main__':
    for a in sys.argv[1:]:
        merge(a)
    p = os.path.join(VERIF, 'DESIGN.md')
    s = open(p).read()
    b, e = '<!-- BEGIN seeded table -->', '<!-- END seeded table -->'
    if b not in s:
        print('markers missing in DESIGN.md')
        sys.exit(1)
    i, j = s.index(b) + len(b), s.index(e)
    s = s[:i] + '\n' + table() + s[j:]
    open(p, 'w').write(s)
    print('table rewritten')
