#!/bin/sh
# run every registered quick check on the current tree; exit 1 if any check does not exit 0
cd "$(dirname "$0")/.."
rc=0
for p in $(python3 -c "import json;print(' '.join(c['property_id'] for c in json.load(open('MANIFEST.json'))['checks']))") "$@"; do
  out=$(./check $p --tier quick 2>&1); e=$?
  echo "$out" | grep -E "^(property=|ANALYSIS|VIOLATION|KNOWN)" | cut -c1-220
  [ $e -ne 0 ] && { rc=1; echo "  ^^^ $p exit $e"; }
done
exit $rc
