#!/usr/bin/env python3
"""Confirm seeded changes and run the checks against them.

  seeded.py confirm <dir-with-patch.diff+demo.rs> [features]   # scratch worktree: tests pass with patch, demo fails with / passes without
  seeded.py detect  <seeded id> [check ids...]                 # apply /verif/seeded/<id>/patch.diff to /repo, run checks, undo

Scratch worktrees live under /tmp and are removed (with their build output) when done.
"""
import json
import os
import shutil
import subprocess
import sys
import tempfile

REPO = '/repo'
VERIF = '/verif'


def sh(cmd, cwd=None, timeout=1800):
    r = subprocess.run(cmd, shell=True, cwd=cwd, capture_output=True, text=True, timeout=timeout)
    return r.returncode, r.stdout + r.stderr


def apply_patch(wt, patch):
    rc, out = sh(f"git apply --whitespace=nowarn {patch}", wt)
    if rc != 0:
        rc, out = sh(f"git apply --3way --whitespace=nowarn {patch}", wt)
    if rc != 0:
        rc, out = sh(f"patch -p1 --fuzz=3 < {patch}", wt)
    return rc, out


def confirm(d):
    patch = os.path.join(d, 'patch.diff')
    demo = os.path.join(d, 'demo.rs')
    wt = tempfile.mkdtemp(prefix='seedwt-', dir='/tmp')
    os.rmdir(wt)
    res = {'dir': d}
    try:
        rc, out = sh(f"git -C {REPO} worktree add -q --detach {wt} HEAD")
        if rc != 0:
            res['error'] = 'worktree: ' + out[-300:]
            return res
        rc, out = apply_patch(wt, patch)
        res['applies'] = rc == 0
        if rc != 0:
            res['error'] = 'patch does not apply: ' + out[-400:]
            return res
        rc, out = sh("cargo test --offline 2>&1 | grep -E '^test result' ", wt)
        res['tests_default'] = out.strip().splitlines()
        rc1, out1 = sh("cargo test --offline --lib 2>&1 | tail -3", wt)
        res['baseline_pass_with_patch'] = ' 0 failed' in out1 and 'test result: ok' in out1
        rc2, out2 = sh("cargo test --offline --all-features --lib 2>&1 | tail -3", wt)
        res['allfeatures_pass_with_patch'] = 'test result: ok' in out2
        os.makedirs(os.path.join(wt, 'tests'), exist_ok=True)
        shutil.copy(demo, os.path.join(wt, 'tests', 'demo.rs'))
        rc3, out3 = sh("cargo test --offline --all-features --test demo 2>&1 | tail -15", wt)
        res['demo_fails_with_patch'] = ('test result: FAILED' in out3) or ('error: test failed' in out3)
        res['demo_with_patch_tail'] = out3[-500:]
        sh("git checkout -- src", wt)
        rc4, out4 = sh("cargo test --offline --all-features --test demo 2>&1 | tail -5", wt)
        res['demo_passes_without_patch'] = 'test result: ok' in out4 and 'FAILED' not in out4
        res['demo_without_patch_tail'] = out4[-300:]
    finally:
        sh(f"git -C {REPO} worktree remove --force {wt}")
        shutil.rmtree(wt, ignore_errors=True)
    res['confirmed'] = bool(res.get('applies') and res.get('baseline_pass_with_patch') and res.get('allfeatures_pass_with_patch')
                            and res.get('demo_fails_with_patch') and res.get('demo_passes_without_patch'))
    return res


def detect(sid, checks):
    d = os.path.join(VERIF, 'seeded', sid)
    patch = os.path.join(d, 'patch.diff')
    rc, out = sh("git status --porcelain -- src", REPO)
    if out.strip():
        print("refusing: /repo/src has uncommitted changes")
        return 2
    rc, out = apply_patch(REPO, patch)
    if rc != 0:
        print("patch does not apply:", out[-300:])
        sh("git checkout -- .", REPO)
        return 2
    results = {}
    try:
        for c in checks:
            rc, out = sh(f"./check {c} --tier quick", VERIF, timeout=3600)
            viol = [l for l in out.splitlines() if l.startswith('VIOLATION')]
            inc = [l for l in out.splitlines() if l.startswith('ANALYSIS-INCOMPLETE')]
            first = ''
            lines = out.splitlines()
            for i, l in enumerate(lines):
                if l.startswith('VIOLATION') and i + 1 < len(lines):
                    first = lines[i + 1].strip()[:300]
                    break
            results[c] = {'exit': rc, 'violations': len(viol), 'incomplete': inc[:1], 'first': first}
            print(f"  {sid} vs {c}: exit={rc} violations={len(viol)} {inc[:1] if inc else ''} {first[:200]}")
    finally:
        sh("git checkout -- .", REPO)
    return results


if __name__ == '__main__':
    cmd = sys.argv[1]
    if cmd == 'confirm':
        r = confirm(sys.argv[2])
        print(json.dumps(r, indent=1))
    elif cmd == 'detect':
        r = detect(sys.argv[2], sys.argv[3:])
        print(json.dumps(r, indent=1))
