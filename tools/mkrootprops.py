#!/usr/bin/env python3
"""Regenerate spec/root_props.json from the cached E1 results of the current (reference) tree: for every root, the
properties that have contract records or property-specific obligations under it.  Run after the thorough tier has
been run once on the reference tree (all five configurations cached)."""
import json, os, sys
sys.path.insert(0, os.path.dirname(os.path.dirname(os.path.abspath(__file__))))
from sda import pipeline
out = {}
for cfg in pipeline.THOROUGH:
    fp, ep = pipeline.ensure(cfg, True)
    e1 = pipeline.load_json(ep)
    for r in e1['roots']:
        ps = out.setdefault(r['root'], set())
        for c in r['contracts']:
            if c['prop'] != 'C00':
                ps.add(c['prop'])
    for o in e1['obligations']:
        tag = None
        if o['kind'] == 'C-cast' or (o['kind'] == 'R-inv' and o['desc'] == 'construct oracle::Date'):
            tag = 'C16'
        elif (o['kind'] == 'R-inv' and 'Field' in o['desc']) or (o['kind'] == 'P-call' and 'StackVec::push' in o['desc']):
            tag = 'C19'
        if tag:
            for r in o['roots']:
                out.setdefault(r, set()).add(tag)
p = os.path.join(pipeline.VERIF, 'spec', 'root_props.json')
json.dump({k: sorted(v) for k, v in sorted(out.items())}, open(p, 'w'), indent=0)
print(len(out), 'roots ->', p)
