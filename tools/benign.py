#!/usr/bin/env python3
"""Behaviour-preserving rewrites of /repo (benign/*.diff): every check must stay silent on them.
Each is applied in a scratch worktree (VERIF_REPO), the checks run there, the worktree is removed."""
import json, os, subprocess, sys, tempfile, shutil
from concurrent.futures import ThreadPoolExecutor
VERIF=os.path.dirname(os.path.dirname(os.path.abspath(__file__))); REPO='/repo'
def sh(cmd, cwd=None, env=None, timeout=7200):
    r=subprocess.run(cmd, shell=True, cwd=cwd, capture_output=True, text=True, timeout=timeout, env=env)
    return r.returncode, r.stdout+r.stderr
def one(name, checks):
    wt=tempfile.mkdtemp(prefix='bn-', dir='/tmp'); os.rmdir(wt)
    res={}
    try:
        sh(f"git -C {REPO} worktree add -q --detach {wt} HEAD")
        rc,out=sh(f"git apply --whitespace=nowarn {VERIF}/benign/{name}", wt)
        if rc!=0: return name,{'error':'apply failed '+out[-200:]}
        env=dict(os.environ); env['VERIF_REPO']=wt; env['VERIF_OUT_BASE']=wt+'-out'
        rc_all,out_all=sh(f"python3 tools/checkall.py --tier quick {' '.join(checks)}", VERIF, env)
        chunks={}; cur=[]
        for l in out_all.splitlines():
            if l.startswith('EXIT '):
                _,c0,code=l.split(); chunks[c0]=(int(code),cur); cur=[]
            else: cur.append(l)
        for c in checks:
            rc,lines=chunks.get(c,(2,['ANALYSIS-INCOMPLETE no output: '+out_all[-300:]]))
            bad=[l for l in lines if l.startswith('VIOLATION') or l.startswith('ANALYSIS-INCOMPLETE')]
            first=''
            for i,l in enumerate(lines):
                if l.startswith('VIOLATION') and i+1<len(lines): first=lines[i+1].strip()[:300]; break
                if l.startswith('ANALYSIS-INCOMPLETE'): first=l[:300]; break
            res[c]={'exit':rc,'alarms':len(bad),'first':first}
    finally:
        sh(f"git -C {REPO} worktree remove --force {wt}"); shutil.rmtree(wt, ignore_errors=True); shutil.rmtree(wt+'-out', ignore_errors=True)
    return name,res
if __name__=='__main__':
    checks=[c['property_id'] for c in json.load(open(f'{VERIF}/MANIFEST.json'))['checks']]
    names=sys.argv[1:] or sorted(f for f in os.listdir(f'{VERIF}/benign') if f.endswith('.diff'))
    out={}; rc=0
    with ThreadPoolExecutor(max_workers=int(os.environ.get("VERIF_WORKERS", "2"))) as ex:
        for name,res in ex.map(lambda s: one(s,checks), names):
            out[name]=res
            al=[c for c,r in res.items() if isinstance(r,dict) and (r.get('alarms') or r.get('exit'))]
            print(name, 'SILENT' if not al and 'error' not in res else 'ALARM '+','.join(al)+str(res.get('error','')), flush=True)
            for c in al[:3]: print('     ',c,res[c]['first'][:260], flush=True)
            if al or 'error' in res: rc=1
    json.dump(out, open(f'{VERIF}/.work/benign.json','w'), indent=1)
    sys.exit(rc)
