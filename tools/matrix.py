#!/usr/bin/env python3
"""Triage helper: run the available checks against every seeded change in scratch worktrees (VERIF_REPO),
several at a time.  The registered procedure (apply to /repo, run, undo) is tools/seeded.py detect."""
import json, os, subprocess, sys, tempfile, shutil
from concurrent.futures import ThreadPoolExecutor
VERIF=os.path.dirname(os.path.dirname(os.path.abspath(__file__))); REPO='/repo'
def sh(cmd, cwd=None, env=None, timeout=7200):
    r=subprocess.run(cmd, shell=True, cwd=cwd, capture_output=True, text=True, timeout=timeout, env=env)
    return r.returncode, r.stdout+r.stderr
def one(sid, checks):
    wt=tempfile.mkdtemp(prefix='mx-', dir='/tmp'); os.rmdir(wt)
    res={}
    try:
        sh(f"git -C {REPO} worktree add -q --detach {wt} HEAD")
        rc,out=sh(f"git apply --whitespace=nowarn {VERIF}/seeded/{sid}/patch.diff || git apply --3way {VERIF}/seeded/{sid}/patch.diff || patch -p1 --fuzz=3 < {VERIF}/seeded/{sid}/patch.diff", wt)
        if rc!=0:
            return sid, {'error':'apply failed '+out[-200:]}
        env=dict(os.environ); env['VERIF_REPO']=wt; env['VERIF_OUT_BASE']=wt+'-out'
        rc_all,out_all=sh(f"python3 tools/checkall.py --tier quick {' '.join(checks)}", VERIF, env)
        chunks={}; cur=[]
        for l in out_all.splitlines():
            if l.startswith('EXIT '):
                _,c0,code=l.split(); chunks[c0]=(int(code),cur); cur=[]
            else: cur.append(l)
        for c in checks:
            rc,lines=chunks.get(c,(2,['ANALYSIS-INCOMPLETE no output: '+out_all[-300:]]))
            viol=[l for l in lines if l.startswith('VIOLATION')]
            inc=[l for l in lines if l.startswith('ANALYSIS-INCOMPLETE')]
            first=''
            for i,l in enumerate(lines):
                if l.startswith('VIOLATION') and i+1<len(lines): first=lines[i+1].strip()[:260]; break
            res[c]={'exit':rc,'violations':len(viol),'incomplete':(inc[0][:200] if inc else ''),'first':first}
    finally:
        sh(f"git -C {REPO} worktree remove --force {wt}"); shutil.rmtree(wt, ignore_errors=True); shutil.rmtree(wt+'-out', ignore_errors=True)
    return sid,res
if __name__=='__main__':
    checks=sys.argv[1].split(',')
    sids=sys.argv[2:] or sorted(os.listdir(f'{VERIF}/seeded'))
    out={}
    with ThreadPoolExecutor(max_workers=int(os.environ.get("VERIF_WORKERS", "2"))) as ex:
        for sid,res in ex.map(lambda s: one(s,checks), sids):
            out[sid]=res
            det=[c for c,r in res.items() if isinstance(r,dict) and r.get('violations')]
            inc=[c for c,r in res.items() if isinstance(r,dict) and r.get('incomplete')]
            print(sid, 'DETECTED by '+','.join(det) if det else 'missed', ('INCOMPLETE '+','.join(inc)) if inc else '', flush=True)
            for c in det[:2]: print('     ',c, res[c]['first'][:220], flush=True)
    json.dump(out, open(os.environ.get('MATRIX_OUT', f'{VERIF}/.work/matrix.json'),'w'), indent=1)
