#!/usr/bin/env python3
"""Print the prompt given to an independent sub-agent that writes *behaviour-preserving* rewrites of one area
of the library (the false-alarm suite benign/*.diff).

usage: mkbenign_prompt.py <area> <worktree> [n]

The prompt contains nothing from /verif: the agent does not know what the checks look at, so the rewrites
are the ones a maintainer would make, not ones tuned to pass."""
import sys

AREAS = {
    'date': 'src/date.rs and src/common.rs (the Date type, calendar helpers, Julian-day conversion callers, trunc/round of dates, add_months / last_day)',
    'time': 'src/time.rs (the Time type: construction, extract, add/sub of intervals and times, multiplication / division by floats, trunc/round)',
    'timestamp': 'src/timestamp.rs (the Timestamp type: (date, time) composition, arithmetic with intervals / days / time, trunc/round, comparisons with Date)',
    'interval': 'src/interval.rs (IntervalYM and IntervalDT: construction and validation, extract, negate, add/sub, mul/div by floats)',
    'oracle': 'src/oracle.rs (the Oracle-style Date: whole seconds; add_days / sub_date; delegation to Timestamp; conversions)',
    'parse': 'src/format.rs, PARSING side only (Formatter::parse_internal and its helpers: number / name parsing, AM/PM and 12-hour handling, duplicates detection, year completion, the final TryFrom<NaiveDateTime> assembly impls at the end of the file and in the type files)',
    'format': 'src/format.rs, FORMATTING side and the picture lexer only (FormatParser::next and its parse_* helpers, Formatter::try_new, Formatter::format_internal / format and the write helpers, the name tables)',
    'numtext': 'src/format.rs, the numeric text helpers ONLY: `write_u32` (zero-padded decimal output of a number), `NaiveDateTime::fraction` (the fractional-second digits for the FF1..FF9 tokens), and the free functions `parse_number`, `eat_digits` and `parse_fraction` (reading digits, including fractional seconds with rounding)',
    'cmp': 'the cross-type comparison impls: `PartialEq` / `PartialOrd` between Time and IntervalDT (src/time.rs, src/interval.rs), between Date and Timestamp (src/date.rs, src/timestamp.rs) and, with feature `oracle`, between the Oracle-style Date and Timestamp / Date (src/oracle.rs)',
    'serde': 'src/serialize.rs (or wherever the serde impls live) and src/lib.rs / src/error.rs / src/util.rs (serde impls, static formatters, the small stack buffer types)',
}


STYLES = {
    '': '',
    'modern': "Flavour for this batch: *API modernisation* - prefer rewrites that replace hand-written control flow by standard-library helpers (Option/Result combinators such as map/and_then/ok_or/ok_or_else/filter/unwrap_or_else/map_or/is_some_and, `?`, `matches!`, `bool::then/then_some`, integer helpers such as checked_*/saturating_*/rem_euclid/div_euclid/abs_diff/min/max/clamp/signum/unsigned_abs, `TryFrom`/`From` conversions instead of `as` where lossless, slice helpers such as split_first/split_at/get(a..b)/strip_prefix/iter().position/any/all/rev/zip/enumerate/take/skip/sum, `(a..=b).contains`), or the reverse (expand a combinator chain into explicit matches/loops).",
    'perf': "Flavour for this batch: *micro-optimisation and restructuring* - hoist invariants out of loops, cache a repeated accessor call in a local, merge two passes into one, split a hot function into a fast path and a cold helper, replace a table lookup by arithmetic or arithmetic by a lookup in a new private const table, reorder match arms / comparisons so that the common case comes first, replace a division+modulo pair by one division and a multiply-subtract, narrow or widen intermediate types where provably lossless, change loop shapes (while <-> loop+break <-> for over a range).",
    'defensive': "Flavour for this batch: *defensive clean-up* - introduce named private constants for magic numbers, add private helper functions/methods and route existing code through them, turn nested conditionals into guard clauses with early returns (or the reverse), make implicit invariants explicit with `debug_assert!` on conditions that provably always hold, unify duplicated code of two sibling functions behind one generic/private helper, rename private items and locals, replace tuple returns by a small private struct (private API only).",
}


def prompt(area, wt, n=3, style=''):
    return _prompt(area, wt, n).replace('Make them the kind of non-trivial edits', STYLES[style] + '\n\nMake them the kind of non-trivial edits' if style else 'Make them the kind of non-trivial edits')


def _prompt(area, wt, n=3):
    return f"""You are helping test a static-analysis framework for FALSE ALARMS by producing realistic *behaviour-preserving refactorings* of a Rust library. Work ONLY inside the git worktree at {wt} (a checkout of the Rust crate `sqldatetime`: SQL/Oracle-style DATE, TIME, TIMESTAMP, INTERVAL types). Do NOT read or touch /verif or /repo or any other directory under /tmp. The sandbox has no network; always pass --offline to cargo (e.g. `cargo test --offline`, `cargo test --offline --all-features`).

Your area: {AREAS[area]}.

Your task: produce {n} DIFFERENT, independent source changes in your area, each of which is a refactoring / clean-up / micro-optimisation that a maintainer could plausibly commit and that changes NO observable behaviour of the public API for ANY input:
  - same return values, same Ok/Err outcome with the same error variant, for every possible argument (including extreme values: i32/i64 min and max, NaN and infinite floats, empty and very long strings, years 1 and 9999, negative intervals, ...);
  - no new panic, integer overflow, out-of-bounds index or division by zero for any input (a rewrite that overflows in debug builds on extreme input is NOT behaviour preserving), and no removed one;
  - public signatures unchanged; compiles with default features AND `--all-features`, without new warnings being necessary;
  - `cargo test --offline` and `cargo test --offline --all-features` stay fully green (do not edit tests).

Make them the kind of non-trivial edits real maintenance produces - each patch should change the *shape* of the code, 5 - 40 changed lines, for example: reorder independent guards; replace an `if`/`else if` chain by a `match` (or the reverse); extract a private helper function, or inline one; rename a private function or local variable; replace `%`/`/` with sign fix-up by `rem_euclid`/`div_euclid` (or the reverse) where equivalent; hoist a common subexpression; replace a manual loop by an iterator chain (or the reverse); change an intermediate integer type to a WIDER one; replace a range test `a <= x && x <= b` by `(a..=b).contains(&x)`; replace `checked_add(..).ok_or(..)` + range test by an equivalent formulation; use `?` instead of a `match` on a Result; early-return style vs nested style; move a constant into a named `const`; split a long function in two. Use different mechanisms for the {n} patches and touch different functions. Do not make purely cosmetic changes (comments, whitespace, rustfmt) - the resolved program must actually change.

Be rigorous about equivalence: think through boundary values for each rewritten expression and state your argument. If you are not sure a rewrite is exactly equivalent for all inputs, pick another one.

For each change k (k = 1..{n}) deliver, under {wt}/_out/b<k>/ :
  - patch.diff : output of `git diff -- src` for ONLY that change relative to the pristine HEAD (each patch independent, made from a clean tree, not stacked).
  - notes.md : 5-15 lines: what was rewritten, the equivalence argument (including boundary values), and the commands you ran with their results.

Procedure to follow for each change: start from a clean tree (`git -C {wt} checkout -- .`), make the edit, run `cargo test --offline` and `cargo test --offline --all-features` (all green), save `git diff -- src > _out/b<k>/patch.diff`, then `git checkout -- src`. Leave src pristine at the end; keep only _out/. Do not commit anything.

At the end reply with a short summary: for each change, file/function and the kind of rewrite."""


if __name__ == '__main__':
    area, wt = sys.argv[1], sys.argv[2]
    n = int(sys.argv[3]) if len(sys.argv) > 3 else 3
    style = sys.argv[4] if len(sys.argv) > 4 else ''
    print(prompt(area, wt, n, style))
