//! mirdump: fact extractor for the sqldatetime static checks (engine E0 of /verif/DESIGN.md).
//!
//! Used as RUSTC_WORKSPACE_WRAPPER under `cargo +nightly check`: argv[1] is the real rustc
//! path and is dropped.  For the crate named by MIRDUMP_CRATE (default `sqldatetime`) the
//! driver runs the normal front end and, after analysis, writes one JSON file
//! (MIRDUMP_OUT) with items, ADTs, evaluated constants, and monomorphic MIR of every
//! instance reachable from the public roots.  Nothing of the target crate is executed.
#![feature(rustc_private)]
#![allow(clippy::all)]

extern crate rustc_abi;
extern crate rustc_data_structures;
extern crate rustc_driver;
extern crate rustc_hir;
extern crate rustc_interface;
extern crate rustc_middle;
extern crate rustc_session;
extern crate rustc_span;

mod dump;
mod json;

use rustc_driver::{Callbacks, Compilation};
use rustc_interface::interface::Compiler;
use rustc_middle::ty::TyCtxt;

struct Cb;

impl Callbacks for Cb {
    fn after_analysis<'tcx>(&mut self, _c: &Compiler, tcx: TyCtxt<'tcx>) -> Compilation {
        let want = std::env::var("MIRDUMP_CRATE").unwrap_or_else(|_| "sqldatetime".to_string());
        let name = tcx.crate_name(rustc_hir::def_id::LOCAL_CRATE).to_string();
        if name == want {
            if let Ok(out) = std::env::var("MIRDUMP_OUT") {
                // Only the lib target (no --test): cfg(test) code is never analysed.
                let is_test = tcx.sess.is_test_crate();
                if !is_test {
                    dump::dump(tcx, &out);
                }
            }
        }
        Compilation::Continue
    }
}

struct NoCb;
impl Callbacks for NoCb {}

fn main() {
    let mut args: Vec<String> = std::env::args().collect();
    // RUSTC_WORKSPACE_WRAPPER convention: argv[1] is the path of the real rustc.
    if args.len() > 1 && (args[1].ends_with("rustc") || args[1].contains("/rustc")) {
        args.remove(1);
    }
    let is_target = args.iter().any(|a| a == "--crate-name");
    if is_target {
        rustc_driver::run_compiler(&args, &mut Cb);
    } else {
        rustc_driver::run_compiler(&args, &mut NoCb);
    }
}
