//! The fact dump itself.  See DESIGN.md section 2 (E0) for what is emitted and why.
use crate::json::J;
use rustc_abi::{FieldIdx, Size, TagEncoding, VariantIdx, Variants};
use rustc_hir::def::DefKind;
use rustc_hir::def_id::{DefId, LocalDefId};
use rustc_middle::mir::interpret::{AllocId, Allocation, GlobalAlloc, Scalar};
use rustc_middle::mir::{
    self, AggregateKind, AssertKind, BinOp, Body, CastKind, Const, ConstValue, NonDivergingIntrinsic,
    Operand, Place, ProjectionElem, Rvalue, StatementKind, TerminatorKind, UnOp, UnwindAction,
    VarDebugInfoContents,
};
use rustc_middle::ty::print::with_no_trimmed_paths;
use rustc_middle::ty::{
    self, EarlyBinder, GenericArgs, GenericArgsRef, Instance, InstanceKind, Ty, TyCtxt, TypingEnv,
    TypeVisitableExt,
};
use rustc_span::Span;
use std::collections::{BTreeMap, HashSet, VecDeque};

pub fn dump<'tcx>(tcx: TyCtxt<'tcx>, out: &str) {
    let mut d = Dumper {
        tcx,
        types: BTreeMap::new(),
        bodies: Vec::new(),
        seen: HashSet::new(),
        work: VecDeque::new(),
        errors: Vec::new(),
        ext: BTreeMap::new(),
    };
    let top = d.run();
    let mut s = String::new();
    top.write(&mut s);
    std::fs::write(out, s).expect("mirdump: cannot write output");
}

struct Dumper<'tcx> {
    tcx: TyCtxt<'tcx>,
    types: BTreeMap<String, J>,
    bodies: Vec<J>,
    seen: HashSet<Instance<'tcx>>,
    work: VecDeque<(Instance<'tcx>, TypingEnv<'tcx>)>,
    errors: Vec<String>,
    ext: BTreeMap<String, u32>,
}

fn js(s: impl Into<String>) -> J {
    J::Str(s.into())
}

impl<'tcx> Dumper<'tcx> {
    // ------------------------------------------------------------------ helpers
    fn path(&self, d: DefId) -> String {
        with_no_trimmed_paths!(self.tcx.def_path_str(d))
    }

    fn span(&self, sp: Span) -> String {
        self.tcx.sess.source_map().span_to_diagnostic_string(sp)
    }

    fn inst_key(&self, i: Instance<'tcx>) -> String {
        let k = with_no_trimmed_paths!(format!("{}", i));
        // A library function instantiated with a closure type prints the closure by its source position only; closures of
        // different instances of one generic function would collide.  Disambiguate with a hash of the full instance.
        if !i.def_id().is_local() && k.contains("{closure@") {
            let dbg = format!("{:?}", i);
            let mut h: u64 = 0xcbf29ce484222325;
            for b in dbg.bytes() {
                h ^= b as u64;
                h = h.wrapping_mul(0x100000001b3);
            }
            return format!("{}#{:x}", k, h);
        }
        k
    }

    fn enqueue(&mut self, i: Instance<'tcx>, env: TypingEnv<'tcx>) {
        if self.seen.insert(i) {
            self.work.push_back((i, env));
        }
    }

    fn has_local_body(&self, i: Instance<'tcx>) -> bool {
        match i.def {
            InstanceKind::Item(d) => d.is_local() && self.tcx.is_mir_available(d),
            _ => false,
        }
    }

    /// Bodies of small library combinators (Option / Result / integer / comparison helpers) are dumped too, so that the
    /// checker can analyse them like local code instead of needing a hand-written model for each of them.
    fn has_ext_body(&self, i: Instance<'tcx>) -> bool {
        match i.def {
            InstanceKind::Item(d) => {
                if d.is_local() || !self.tcx.is_mir_available(d) {
                    return false;
                }
                if i.args.has_non_region_param() {
                    return false;
                }
                let p = self.path(d);
                const PFX: &[&str] = &[
                    "std::option::", "core::option::", "std::result::", "core::result::", "core::num::", "std::cmp::", "core::cmp::",
                    "core::bool::", "std::ops::function::", "core::ops::function::", "std::ops::FnOnce", "std::ops::FnMut", "std::ops::Fn",
                    "std::convert::", "core::convert::", "core::slice::<impl [T]>::", "std::mem::", "core::mem::",
                ];
                PFX.iter().any(|x| p.starts_with(x))
            }
            _ => false,
        }
    }

    // ------------------------------------------------------------------ types
    fn ty(&mut self, t: Ty<'tcx>) -> String {
        self.reg_ty(t, 0)
    }

    fn reg_ty(&mut self, t: Ty<'tcx>, depth: u32) -> String {
        let name = with_no_trimmed_paths!(format!("{}", t));
        if self.types.contains_key(&name) {
            return name;
        }
        self.types.insert(name.clone(), J::Null);
        let tcx = self.tcx;
        let j = match t.kind() {
            ty::Bool => J::obj(vec![("k", js("bool"))]),
            ty::Char => J::obj(vec![("k", js("char"))]),
            ty::Int(it) => {
                let bits = it.bit_width().unwrap_or(64);
                J::obj(vec![("k", js("int")), ("bits", J::i(bits)), ("signed", J::Bool(true)),
                            ("ptr", J::Bool(it.bit_width().is_none()))])
            }
            ty::Uint(ut) => {
                let bits = ut.bit_width().unwrap_or(64);
                J::obj(vec![("k", js("int")), ("bits", J::i(bits)), ("signed", J::Bool(false)),
                            ("ptr", J::Bool(ut.bit_width().is_none()))])
            }
            ty::Float(ft) => J::obj(vec![("k", js("float")), ("bits", J::i(ft.bit_width()))]),
            ty::Str => J::obj(vec![("k", js("str"))]),
            ty::Never => J::obj(vec![("k", js("never"))]),
            ty::Ref(_, inner, m) => {
                let i = self.reg_ty(*inner, depth + 1);
                J::obj(vec![("k", js("ref")), ("to", js(i)), ("mut", J::Bool(m.is_mut()))])
            }
            ty::RawPtr(inner, m) => {
                let i = self.reg_ty(*inner, depth + 1);
                J::obj(vec![("k", js("rawptr")), ("to", js(i)), ("mut", J::Bool(m.is_mut()))])
            }
            ty::Tuple(elems) => {
                let v: Vec<J> = elems.iter().map(|e| js(self.reg_ty(e, depth + 1))).collect();
                J::obj(vec![("k", js("tuple")), ("elems", J::Arr(v))])
            }
            ty::Array(e, n) => {
                let el = self.reg_ty(*e, depth + 1);
                let len = n.try_to_target_usize(tcx);
                J::obj(vec![("k", js("array")), ("elem", js(el)),
                            ("len", len.map(J::i).unwrap_or(J::Null))])
            }
            ty::Slice(e) => {
                let el = self.reg_ty(*e, depth + 1);
                J::obj(vec![("k", js("slice")), ("elem", js(el))])
            }
            ty::Adt(def, args) => {
                let local = def.did().is_local();
                let akind = if def.is_enum() { "enum" } else if def.is_union() { "union" } else { "struct" };
                let mut variants = Vec::new();
                let want_fields = local || def.is_enum() || depth < 2;
                for (vi, v) in def.variants().iter_enumerated() {
                    let discr = if def.is_enum() {
                        let d = def.discriminant_for_variant(tcx, vi);
                        discr_to_i128(tcx, d)
                    } else {
                        0
                    };
                    let mut fields = Vec::new();
                    if want_fields && !def.is_union() {
                        for f in v.fields.iter() {
                            let fty = f.ty(tcx, args);
                            let fts = if local || def.is_enum() {
                                self.reg_ty(fty, depth + 1)
                            } else {
                                with_no_trimmed_paths!(format!("{}", fty))
                            };
                            fields.push(J::obj(vec![
                                ("name", js(f.name.to_string())),
                                ("ty", js(fts)),
                                ("pub", J::Bool(f.vis.is_public())),
                            ]));
                        }
                    }
                    variants.push(J::obj(vec![
                        ("name", js(v.name.to_string())),
                        ("idx", J::i(vi.as_u32())),
                        ("discr", J::i(discr)),
                        ("fields", J::Arr(fields)),
                    ]));
                }
                let targs: Vec<J> = args.iter().map(|a| js(with_no_trimmed_paths!(format!("{}", a)))).collect();
                J::obj(vec![
                    ("k", js("adt")),
                    ("adt", js(akind)),
                    ("def", js(self.path(def.did()))),
                    ("local", J::Bool(local)),
                    ("args", J::Arr(targs)),
                    ("variants", J::Arr(variants)),
                ])
            }
            ty::FnDef(d, args) => {
                let targs: Vec<J> = args.iter().map(|a| js(with_no_trimmed_paths!(format!("{}", a)))).collect();
                J::obj(vec![("k", js("fndef")), ("def", js(self.path(*d))), ("args", J::Arr(targs))])
            }
            ty::FnPtr(..) => J::obj(vec![("k", js("fnptr"))]),
            ty::Closure(d, args) => {
                let ups: Vec<J> = args.as_closure().upvar_tys().iter().map(|u| js(self.reg_ty(u, depth + 1))).collect();
                J::obj(vec![("k", js("closure")), ("def", js(self.path(*d))), ("upvars", J::Arr(ups))])
            }
            ty::Param(p) => J::obj(vec![("k", js("param")), ("name", js(p.name.to_string()))]),
            ty::Alias(..) => J::obj(vec![("k", js("alias"))]),
            ty::Dynamic(..) => J::obj(vec![("k", js("dyn"))]),
            ty::Foreign(_) => J::obj(vec![("k", js("foreign"))]),
            _ => J::obj(vec![("k", js("other"))]),
        };
        self.types.insert(name.clone(), j);
        name
    }

    // ------------------------------------------------------------------ constants
    fn read_uint(&self, alloc: &Allocation, off: u64, size: u64) -> Option<u128> {
        let a = off as usize;
        let b = (off + size) as usize;
        if b > alloc.len() {
            return None;
        }
        let bytes = alloc.inspect_with_uninit_and_ptr_outside_interpreter(a..b);
        let mut v: u128 = 0;
        for (i, byte) in bytes.iter().enumerate() {
            v |= (*byte as u128) << (8 * i);
        }
        Some(v)
    }

    fn int_json(&self, v: u128, size: u64, signed: bool) -> J {
        let bits = size * 8;
        if signed && bits > 0 && bits < 128 {
            let sign = 1u128 << (bits - 1);
            if v & sign != 0 {
                let m = (v as i128) - (1i128 << bits);
                return J::i(m);
            }
        }
        if signed && bits == 128 {
            return J::i(v as i128);
        }
        J::i(v)
    }

    fn decode_ptr_target(&mut self, id: AllocId, off: u64, pointee: Ty<'tcx>, meta: Option<u64>, env: TypingEnv<'tcx>, depth: u32) -> J {
        let tcx = self.tcx;
        match tcx.global_alloc(id) {
            GlobalAlloc::Function { instance } => {
                let key = self.inst_key(instance);
                let local = self.has_local_body(instance);
                if local {
                    self.enqueue(instance, TypingEnv::fully_monomorphized());
                }
                J::obj(vec![("c", js("fn")), ("key", js(key)), ("def", js(self.path(instance.def_id()))), ("local", J::Bool(local))])
            }
            GlobalAlloc::Static(did) => J::obj(vec![("c", js("static")), ("def", js(self.path(did)))]),
            GlobalAlloc::Memory(mem) => {
                let alloc = mem.inner();
                match pointee.kind() {
                    ty::Str => {
                        let n = meta.unwrap_or(0);
                        let a = off as usize;
                        let b = (off + n) as usize;
                        if b > alloc.len() {
                            return J::obj(vec![("c", js("opaque")), ("why", js("str out of bounds"))]);
                        }
                        let bytes = alloc.inspect_with_uninit_and_ptr_outside_interpreter(a..b);
                        J::obj(vec![("c", js("str")), ("v", js(String::from_utf8_lossy(bytes).to_string()))])
                    }
                    ty::Slice(el) => {
                        let n = meta.unwrap_or(0);
                        self.decode_seq(alloc, off, *el, n, env, depth, "slice")
                    }
                    _ => {
                        let inner = self.decode_mem(alloc, off, pointee, env, depth + 1);
                        J::obj(vec![("c", js("ref")), ("v", inner)])
                    }
                }
            }
            _ => J::obj(vec![("c", js("opaque")), ("why", js("alloc kind"))]),
        }
    }

    fn decode_seq(&mut self, alloc: &Allocation, off: u64, el: Ty<'tcx>, n: u64, env: TypingEnv<'tcx>, depth: u32, tag: &str) -> J {
        let tcx = self.tcx;
        let lay = match tcx.layout_of(env.as_query_input(el)) {
            Ok(l) => l,
            Err(_) => return J::obj(vec![("c", js("opaque")), ("why", js("layout"))]),
        };
        let sz = lay.size.bytes();
        if matches!(el.kind(), ty::Uint(ty::UintTy::U8)) {
            let a = off as usize;
            let b = (off + n) as usize;
            if b <= alloc.len() {
                let bytes = alloc.inspect_with_uninit_and_ptr_outside_interpreter(a..b);
                let v: Vec<J> = bytes.iter().map(|x| J::i(*x)).collect();
                return J::obj(vec![("c", js(tag)), ("v", J::Arr(v))]);
            }
        }
        let mut v = Vec::new();
        for i in 0..n {
            v.push(self.decode_mem(alloc, off + i * sz, el, env, depth + 1));
        }
        J::obj(vec![("c", js(tag)), ("v", J::Arr(v))])
    }

    /// Type-directed decoding of constant memory.
    fn decode_mem(&mut self, alloc: &Allocation, off: u64, t: Ty<'tcx>, env: TypingEnv<'tcx>, depth: u32) -> J {
        let tcx = self.tcx;
        if depth > 12 {
            return J::obj(vec![("c", js("opaque")), ("why", js("depth"))]);
        }
        let lay = match tcx.layout_of(env.as_query_input(t)) {
            Ok(l) => l,
            Err(_) => return J::obj(vec![("c", js("opaque")), ("why", js("layout"))]),
        };
        let size = lay.size.bytes();
        let ptr_size = tcx.data_layout.pointer_size().bytes();
        match t.kind() {
            ty::Bool => match self.read_uint(alloc, off, 1) {
                Some(v) => J::obj(vec![("c", js("bool")), ("v", J::Bool(v != 0))]),
                None => J::obj(vec![("c", js("opaque"))]),
            },
            ty::Char | ty::Uint(_) => match self.read_uint(alloc, off, size) {
                Some(v) => J::obj(vec![("c", js("int")), ("v", self.int_json(v, size, false))]),
                None => J::obj(vec![("c", js("opaque"))]),
            },
            ty::Int(_) => match self.read_uint(alloc, off, size) {
                Some(v) => J::obj(vec![("c", js("int")), ("v", self.int_json(v, size, true))]),
                None => J::obj(vec![("c", js("opaque"))]),
            },
            ty::Float(_) => match self.read_uint(alloc, off, size) {
                Some(v) => {
                    let repr = if size == 8 { format!("{:?}", f64::from_bits(v as u64)) } else if size == 4 { format!("{:?}", f32::from_bits(v as u32)) } else { String::new() };
                    J::obj(vec![("c", js("float")), ("bits", J::i(v)), ("repr", js(repr))])
                }
                None => J::obj(vec![("c", js("opaque"))]),
            },
            ty::Ref(_, inner, _) | ty::RawPtr(inner, _) => {
                let prov = alloc.provenance().ptrs().get(&Size::from_bytes(off)).copied();
                let addr = self.read_uint(alloc, off, ptr_size).unwrap_or(0) as u64;
                let unsized_ = matches!(inner.kind(), ty::Str | ty::Slice(_));
                let meta = if unsized_ { self.read_uint(alloc, off + ptr_size, ptr_size).map(|x| x as u64) } else { None };
                match prov {
                    Some(p) => self.decode_ptr_target(p.alloc_id(), addr, *inner, meta, env, depth),
                    None => J::obj(vec![("c", js("opaque")), ("why", js("no provenance"))]),
                }
            }
            ty::FnPtr(..) => {
                let prov = alloc.provenance().ptrs().get(&Size::from_bytes(off)).copied();
                match prov {
                    Some(p) => self.decode_ptr_target(p.alloc_id(), 0, t, None, env, depth),
                    None => J::obj(vec![("c", js("opaque")), ("why", js("fnptr without provenance"))]),
                }
            }
            ty::FnDef(d, args) => self.fn_const(*d, args, env),
            ty::Array(el, n) => {
                let n = n.try_to_target_usize(tcx).unwrap_or(0);
                self.decode_seq(alloc, off, *el, n, env, depth, "array")
            }
            ty::Tuple(elems) => {
                let mut v = Vec::new();
                for (i, e) in elems.iter().enumerate() {
                    let fo = lay.fields.offset(i).bytes();
                    v.push(self.decode_mem(alloc, off + fo, e, env, depth + 1));
                }
                J::obj(vec![("c", js("tuple")), ("v", J::Arr(v))])
            }
            ty::Adt(def, args) => {
                if def.is_union() {
                    return J::obj(vec![("c", js("opaque")), ("why", js("union"))]);
                }
                let (vidx, vlay) = match &lay.variants {
                    Variants::Single { index } => (*index, lay),
                    Variants::Multiple { tag, tag_encoding, tag_field, .. } => {
                        match tag_encoding {
                            TagEncoding::Direct => {
                                let tsize = tag.size(&tcx).bytes();
                                let toff = lay.fields.offset(tag_field.as_usize()).bytes();
                                let raw = match self.read_uint(alloc, off + toff, tsize) {
                                    Some(r) => r,
                                    None => return J::obj(vec![("c", js("opaque"))]),
                                };
                                let mut found = None;
                                for (vi, d) in def.discriminants(tcx) {
                                    let mask = if tsize >= 16 { u128::MAX } else { (1u128 << (tsize * 8)) - 1 };
                                    if d.val & mask == raw & mask {
                                        found = Some(vi);
                                    }
                                }
                                match found {
                                    Some(vi) => {
                                        let cx = ty::layout::LayoutCx::new(tcx, env);
                                        (vi, lay.for_variant(&cx, vi))
                                    }
                                    None => return J::obj(vec![("c", js("opaque")), ("why", js("tag"))]),
                                }
                            }
                            _ => return J::obj(vec![("c", js("opaque")), ("why", js("niche enum"))]),
                        }
                    }
                    _ => return J::obj(vec![("c", js("opaque")), ("why", js("variants"))]),
                };
                let v = def.variant(vidx);
                let mut fields = Vec::new();
                for (i, f) in v.fields.iter().enumerate() {
                    let fty = f.ty(tcx, args);
                    let fo = vlay.fields.offset(i).bytes();
                    fields.push(self.decode_mem(alloc, off + fo, fty, env, depth + 1));
                }
                let discr = if def.is_enum() { discr_to_i128(tcx, def.discriminant_for_variant(tcx, vidx)) } else { 0 };
                J::obj(vec![
                    ("c", js("adt")),
                    ("def", js(self.path(def.did()))),
                    ("variant", js(v.name.to_string())),
                    ("idx", J::i(vidx.as_u32())),
                    ("discr", J::i(discr)),
                    ("fields", J::Arr(fields)),
                ])
            }
            _ => J::obj(vec![("c", js("opaque")), ("why", js("type kind"))]),
        }
    }

    fn fn_const(&mut self, d: DefId, args: GenericArgsRef<'tcx>, env: TypingEnv<'tcx>) -> J {
        let tcx = self.tcx;
        let mut key = with_no_trimmed_paths!(tcx.def_path_str_with_args(d, args));
        let mut local = false;
        let mut rpath = self.path(d);
        if !args.has_non_region_param() || true {
            if let Ok(Some(inst)) = Instance::try_resolve(tcx, env, d, args) {
                key = self.inst_key(inst);
                rpath = self.path(inst.def_id());
                if self.has_local_body(inst) {
                    local = true;
                    self.enqueue(inst, env);
                }
            }
        }
        let targs: Vec<J> = args.iter().map(|a| js(with_no_trimmed_paths!(format!("{}", a)))).collect();
        J::obj(vec![("c", js("fn")), ("key", js(key)), ("decl", js(self.path(d))), ("def", js(rpath)), ("args", J::Arr(targs)), ("local", J::Bool(local))])
    }

    fn decode_const_value(&mut self, cv: ConstValue, t: Ty<'tcx>, env: TypingEnv<'tcx>) -> J {
        let tcx = self.tcx;
        match cv {
            ConstValue::ZeroSized => match t.kind() {
                ty::FnDef(d, args) => self.fn_const(*d, args, env),
                ty::Closure(d, args) => {
                    let inst = Instance::new_raw(*d, args);
                    let key = self.inst_key(inst);
                    self.enqueue(inst, env);
                    J::obj(vec![("c", js("closure")), ("key", js(key))])
                }
                ty::Tuple(e) if e.is_empty() => J::obj(vec![("c", js("tuple")), ("v", J::Arr(vec![]))]),
                ty::Adt(def, _) if def.is_struct() => J::obj(vec![("c", js("adt")), ("def", js(self.path(def.did()))), ("variant", js(def.non_enum_variant().name.to_string())), ("idx", J::i(0)), ("discr", J::i(0)), ("fields", J::Arr(vec![]))]),
                _ => J::obj(vec![("c", js("zst"))]),
            },
            ConstValue::Scalar(Scalar::Int(si)) => {
                let size = si.size().bytes();
                let raw = si.to_bits(si.size());
                match t.kind() {
                    ty::Bool => J::obj(vec![("c", js("bool")), ("v", J::Bool(raw != 0))]),
                    ty::Int(_) => J::obj(vec![("c", js("int")), ("v", self.int_json(raw, size, true))]),
                    ty::Uint(_) | ty::Char => J::obj(vec![("c", js("int")), ("v", self.int_json(raw, size, false))]),
                    ty::Float(_) => {
                        let repr = if size == 8 { format!("{:?}", f64::from_bits(raw as u64)) } else { format!("{:?}", f32::from_bits(raw as u32)) };
                        J::obj(vec![("c", js("float")), ("bits", J::i(raw)), ("repr", js(repr))])
                    }
                    ty::Adt(..) => {
                        // scalar-ABI ADT (newtype struct or C-like enum): materialise bytes and decode by type
                        let bytes: Vec<u8> = (0..size).map(|i| ((raw >> (8 * i)) & 0xff) as u8).collect();
                        let alloc = Allocation::from_bytes_byte_aligned_immutable(&bytes[..], ());
                        self.decode_mem(&alloc, 0, t, env, 0)
                    }
                    _ => J::obj(vec![("c", js("int")), ("v", J::i(raw))]),
                }
            }
            ConstValue::Scalar(Scalar::Ptr(ptr, _)) => {
                let (prov, off) = ptr.prov_and_relative_offset();
                let pointee = match t.kind() {
                    ty::Ref(_, inner, _) | ty::RawPtr(inner, _) => *inner,
                    _ => t,
                };
                self.decode_ptr_target(prov.alloc_id(), off.bytes(), pointee, None, env, 0)
            }
            ConstValue::Slice { alloc_id, meta } => {
                let pointee = match t.kind() {
                    ty::Ref(_, inner, _) | ty::RawPtr(inner, _) => *inner,
                    _ => t,
                };
                self.decode_ptr_target(alloc_id, 0, pointee, Some(meta), env, 0)
            }
            ConstValue::Indirect { alloc_id, offset } => match tcx.global_alloc(alloc_id) {
                GlobalAlloc::Memory(mem) => self.decode_mem(mem.inner(), offset.bytes(), t, env, 0),
                _ => J::obj(vec![("c", js("opaque")), ("why", js("indirect non-memory"))]),
            },
        }
    }

    fn const_operand(&mut self, c: &Const<'tcx>, sp: Span, env: TypingEnv<'tcx>) -> J {
        let tcx = self.tcx;
        let t = c.ty();
        let ts = self.ty(t);
        if let Const::Unevaluated(uv, _) = c {
            if uv.promoted.is_none() && uv.args.is_empty() && uv.def.is_local()
                && matches!(tcx.def_kind(uv.def), DefKind::Const { .. } | DefKind::AssocConst { .. })
            {
                return J::obj(vec![("o", js("const")), ("ty", js(ts)), ("ref", js(self.path(uv.def)))]);
            }
        }
        let val = match c.eval(tcx, env, sp) {
            Ok(cv) => self.decode_const_value(cv, t, env),
            Err(_) => J::obj(vec![("c", js("uneval")), ("text", js(with_no_trimmed_paths!(format!("{}", c))))]),
        };
        J::obj(vec![("o", js("const")), ("ty", js(ts)), ("val", val)])
    }

    // ------------------------------------------------------------------ MIR pieces
    fn place(&mut self, p: &Place<'tcx>) -> J {
        let mut proj = Vec::new();
        for e in p.projection.iter() {
            let j = match e {
                ProjectionElem::Deref => J::obj(vec![("k", js("deref"))]),
                ProjectionElem::Field(f, t) => {
                    let ts = self.ty(t);
                    J::obj(vec![("k", js("field")), ("i", J::i(f.as_u32())), ("ty", js(ts))])
                }
                ProjectionElem::Index(l) => J::obj(vec![("k", js("index")), ("l", J::i(l.as_u32()))]),
                ProjectionElem::ConstantIndex { offset, min_length, from_end } => J::obj(vec![
                    ("k", js("cindex")), ("off", J::i(offset)), ("min", J::i(min_length)), ("from_end", J::Bool(from_end))]),
                ProjectionElem::Subslice { from, to, from_end } => J::obj(vec![
                    ("k", js("subslice")), ("from", J::i(from)), ("to", J::i(to)), ("from_end", J::Bool(from_end))]),
                ProjectionElem::Downcast(name, v) => J::obj(vec![
                    ("k", js("downcast")), ("v", J::i(v.as_u32())), ("name", name.map(|n| js(n.to_string())).unwrap_or(J::Null))]),
                ProjectionElem::OpaqueCast(_) => J::obj(vec![("k", js("opaquecast"))]),
                ProjectionElem::UnwrapUnsafeBinder(_) => J::obj(vec![("k", js("unwrapbinder"))]),
            };
            proj.push(j);
        }
        J::obj(vec![("l", J::i(p.local.as_u32())), ("p", J::Arr(proj))])
    }

    fn operand(&mut self, o: &Operand<'tcx>, env: TypingEnv<'tcx>) -> J {
        match o {
            Operand::Copy(p) => J::obj(vec![("o", js("copy")), ("p", self.place(p))]),
            Operand::Move(p) => J::obj(vec![("o", js("move")), ("p", self.place(p))]),
            Operand::Constant(c) => self.const_operand(&c.const_, c.span, env),
            Operand::RuntimeChecks(rc) => J::obj(vec![("o", js("runtime_checks")), ("which", js(format!("{:?}", rc)))]),
        }
    }

    fn note_fn_like_ty(&mut self, t: Ty<'tcx>, env: TypingEnv<'tcx>) -> Option<J> {
        let tcx = self.tcx;
        match t.kind() {
            ty::FnDef(d, args) => Some(self.fn_const(*d, args, env)),
            ty::Closure(d, args) => {
                let inst = Instance::new_raw(*d, args);
                let key = self.inst_key(inst);
                if d.is_local() && tcx.is_mir_available(*d) {
                    self.enqueue(inst, env);
                }
                Some(J::obj(vec![("c", js("closure")), ("key", js(key)), ("def", js(self.path(*d)))]))
            }
            ty::Ref(_, inner, _) => self.note_fn_like_ty(*inner, env),
            _ => None,
        }
    }

    fn rvalue(&mut self, rv: &Rvalue<'tcx>, body: &Body<'tcx>, env: TypingEnv<'tcx>) -> J {
        let tcx = self.tcx;
        match rv {
            Rvalue::Use(o, _) => J::obj(vec![("r", js("use")), ("a", self.operand(o, env))]),
            Rvalue::Repeat(o, n) => J::obj(vec![("r", js("repeat")), ("a", self.operand(o, env)),
                ("n", n.try_to_target_usize(tcx).map(J::i).unwrap_or(J::Null))]),
            Rvalue::Ref(_, bk, p) => J::obj(vec![("r", js("ref")), ("mut", J::Bool(matches!(bk, mir::BorrowKind::Mut { .. }))), ("p", self.place(p))]),
            Rvalue::RawPtr(k, p) => J::obj(vec![("r", js("rawptr")), ("kind", js(format!("{:?}", k))), ("p", self.place(p))]),
            Rvalue::ThreadLocalRef(d) => J::obj(vec![("r", js("tls")), ("def", js(self.path(*d)))]),
            Rvalue::Cast(k, o, t) => {
                let from = o.ty(&body.local_decls, tcx);
                let fs = self.ty(from);
                let ts = self.ty(*t);
                let kind = match k {
                    CastKind::IntToInt => "IntToInt".to_string(),
                    CastKind::FloatToInt => "FloatToInt".to_string(),
                    CastKind::IntToFloat => "IntToFloat".to_string(),
                    CastKind::FloatToFloat => "FloatToFloat".to_string(),
                    CastKind::PtrToPtr => "PtrToPtr".to_string(),
                    CastKind::Transmute => "Transmute".to_string(),
                    CastKind::PointerCoercion(pc, _) => format!("PointerCoercion::{:?}", pc),
                    other => format!("{:?}", other),
                };
                let mut v = vec![("r", js("cast")), ("kind", js(kind)), ("a", self.operand(o, env)), ("from", js(fs)), ("to", js(ts))];
                if let Some(f) = self.note_fn_like_ty(from, env) {
                    v.push(("fn", f));
                }
                J::obj(v)
            }
            Rvalue::BinaryOp(op, ab) => {
                let (a, b) = &**ab;
                let t = a.ty(&body.local_decls, tcx);
                let ts = self.ty(t);
                J::obj(vec![("r", js("bin")), ("op", js(binop_name(*op))), ("a", self.operand(a, env)), ("b", self.operand(b, env)), ("ty", js(ts))])
            }
            Rvalue::UnaryOp(op, a) => {
                let t = a.ty(&body.local_decls, tcx);
                let ts = self.ty(t);
                let name = match op {
                    UnOp::Not => "Not",
                    UnOp::Neg => "Neg",
                    UnOp::PtrMetadata => "PtrMetadata",
                };
                J::obj(vec![("r", js("un")), ("op", js(name)), ("a", self.operand(a, env)), ("ty", js(ts))])
            }
            Rvalue::Discriminant(p) => {
                let t = p.ty(&body.local_decls, tcx).ty;
                let ts = self.ty(t);
                J::obj(vec![("r", js("discr")), ("p", self.place(p)), ("ty", js(ts))])
            }
            Rvalue::Aggregate(k, ops) => {
                let opsj: Vec<J> = ops.iter().map(|o| self.operand(o, env)).collect();
                let mut v = vec![("r", js("agg"))];
                match &**k {
                    AggregateKind::Array(t) => {
                        let ts = self.ty(*t);
                        v.push(("kind", js("array")));
                        v.push(("elem", js(ts)));
                    }
                    AggregateKind::Tuple => v.push(("kind", js("tuple"))),
                    AggregateKind::Adt(d, vi, args, _, active) => {
                        let adt = tcx.adt_def(*d);
                        let t = Ty::new_adt(tcx, adt, args);
                        let ts = self.ty(t);
                        v.push(("kind", js("adt")));
                        v.push(("def", js(self.path(*d))));
                        v.push(("ty", js(ts)));
                        v.push(("variant", J::i(vi.as_u32())));
                        v.push(("vname", js(adt.variant(*vi).name.to_string())));
                        if let Some(a) = active {
                            v.push(("active", J::i(a.as_u32())));
                        }
                    }
                    AggregateKind::Closure(d, args) => {
                        let inst = Instance::new_raw(*d, args);
                        let key = self.inst_key(inst);
                        if d.is_local() {
                            self.enqueue(inst, env);
                        }
                        v.push(("kind", js("closure")));
                        v.push(("def", js(self.path(*d))));
                        v.push(("key", js(key)));
                    }
                    AggregateKind::RawPtr(..) => v.push(("kind", js("rawptr"))),
                    _ => v.push(("kind", js("other"))),
                }
                v.push(("ops", J::Arr(opsj)));
                J::obj(v)
            }
            Rvalue::CopyForDeref(p) => J::obj(vec![("r", js("use")), ("a", J::obj(vec![("o", js("copy")), ("p", self.place(p))]))]),
            Rvalue::WrapUnsafeBinder(..) => J::obj(vec![("r", js("other"))]),
        }
    }

    fn callee(&mut self, func: &Operand<'tcx>, body: &Body<'tcx>, env: TypingEnv<'tcx>) -> J {
        let tcx = self.tcx;
        let fty = func.ty(&body.local_decls, tcx);
        match fty.kind() {
            ty::FnDef(d, args) => {
                let decl = self.path(*d);
                let targs: Vec<J> = args.iter().map(|a| js(with_no_trimmed_paths!(format!("{}", a)))).collect();
                // function-like generic args (closures / fn items handed to an external)
                let mut fnargs = Vec::new();
                for (i, a) in args.iter().enumerate() {
                    if let Some(t) = a.as_type() {
                        if let Some(f) = self.note_fn_like_ty(t, env) {
                            fnargs.push(J::obj(vec![("i", J::i(i)), ("f", f)]));
                        }
                    }
                }
                let mut v = vec![("decl", js(decl)), ("args", J::Arr(targs)), ("fnargs", J::Arr(fnargs))];
                match Instance::try_resolve(tcx, env, *d, args) {
                    Ok(Some(inst)) => {
                        let key = self.inst_key(inst);
                        let kind = match inst.def {
                            InstanceKind::Item(_) => "item",
                            InstanceKind::Intrinsic(_) => "intrinsic",
                            InstanceKind::Virtual(..) => "virtual",
                            InstanceKind::ClosureOnceShim { .. } => "closure_once_shim",
                            InstanceKind::FnPtrShim(..) => "fnptr_shim",
                            InstanceKind::DropGlue(..) => "drop_glue",
                            InstanceKind::CloneShim(..) => "clone_shim",
                            InstanceKind::ReifyShim(..) => "reify_shim",
                            _ => "shim",
                        };
                        let local = self.has_local_body(inst);
                        if local {
                            self.enqueue(inst, env);
                        } else {
                            *self.ext.entry(key.clone()).or_insert(0) += 1;
                            if self.has_ext_body(inst) {
                                self.enqueue(inst, env);
                                v.push(("extbody", J::Bool(true)));
                            }
                        }
                        // core's blanket `impl<T, U: From<T>> Into<U> for T`: name the From impl it forwards to
                        if self.path(*d).ends_with("convert::Into::into") && args.len() == 2 {
                            if let (Some(t), Some(u)) = (args[0].as_type(), args[1].as_type()) {
                                if let Some(from_trait) = tcx.lang_items().from_trait() {
                                    for ai in tcx.associated_items(from_trait).in_definition_order() {
                                        if ai.name().as_str() == "from" {
                                            let fargs = tcx.mk_args(&[u.into(), t.into()]);
                                            if let Ok(Some(fi)) = Instance::try_resolve(tcx, env, ai.def_id, fargs) {
                                                let fkey = self.inst_key(fi);
                                                if self.has_local_body(fi) {
                                                    self.enqueue(fi, env);
                                                    v.push(("forward", js(fkey)));
                                                }
                                            }
                                        }
                                    }
                                }
                            }
                        }
                        v.push(("key", js(key)));
                        v.push(("def", js(self.path(inst.def_id()))));
                        v.push(("kind", js(kind)));
                        v.push(("local", J::Bool(local)));
                        let rargs: Vec<J> = inst.args.iter().map(|a| js(with_no_trimmed_paths!(format!("{}", a)))).collect();
                        v.push(("rargs", J::Arr(rargs)));
                    }
                    _ => {
                        let key = with_no_trimmed_paths!(tcx.def_path_str_with_args(*d, args));
                        *self.ext.entry(key.clone()).or_insert(0) += 1;
                        v.push(("key", js(key)));
                        v.push(("def", js(self.path(*d))));
                        v.push(("kind", js("unresolved")));
                        v.push(("local", J::Bool(false)));
                    }
                }
                J::obj(v)
            }
            _ => {
                let ts = self.ty(fty);
                J::obj(vec![("kind", js("indirect")), ("ty", js(ts)), ("local", J::Bool(false))])
            }
        }
    }

    fn unwind(&self, u: &UnwindAction) -> J {
        match u {
            UnwindAction::Continue => js("continue"),
            UnwindAction::Unreachable => js("unreachable"),
            UnwindAction::Terminate(_) => js("terminate"),
            UnwindAction::Cleanup(b) => J::i(b.as_u32()),
        }
    }

    fn dump_body(&mut self, key: &str, inst: Option<Instance<'tcx>>, def: DefId, env: TypingEnv<'tcx>, body: &Body<'tcx>, extra: Vec<(&str, J)>) -> J {
        let tcx = self.tcx;
        let mut names: BTreeMap<u32, String> = BTreeMap::new();
        for vdi in body.var_debug_info.iter() {
            if let VarDebugInfoContents::Place(p) = &vdi.value {
                if p.projection.is_empty() {
                    names.entry(p.local.as_u32()).or_insert(vdi.name.to_string());
                }
            }
        }
        let mut locals = Vec::new();
        for (l, decl) in body.local_decls.iter_enumerated() {
            let ts = self.ty(decl.ty);
            locals.push(J::obj(vec![
                ("ty", js(ts)),
                ("name", names.get(&l.as_u32()).map(|n| js(n.clone())).unwrap_or(J::Null)),
            ]));
        }
        let mut blocks = Vec::new();
        for (_bb, data) in body.basic_blocks.iter_enumerated() {
            let mut stmts = Vec::new();
            for st in data.statements.iter() {
                let sp = js(self.span(st.source_info.span));
                let exp = J::Bool(st.source_info.span.from_expansion());
                match &st.kind {
                    StatementKind::Assign(bx) => {
                        let (p, rv) = &**bx;
                        let pj = self.place(p);
                        let rj = self.rvalue(rv, body, env);
                        stmts.push(J::obj(vec![("s", js("assign")), ("p", pj), ("rv", rj), ("sp", sp), ("exp", exp)]));
                    }
                    StatementKind::SetDiscriminant { place, variant_index } => {
                        let pj = self.place(place);
                        stmts.push(J::obj(vec![("s", js("setdiscr")), ("p", pj), ("v", J::i(variant_index.as_u32())), ("sp", sp)]));
                    }
                    StatementKind::Intrinsic(bx) => match &**bx {
                        NonDivergingIntrinsic::Assume(o) => {
                            let oj = self.operand(o, env);
                            stmts.push(J::obj(vec![("s", js("assume")), ("a", oj), ("sp", sp)]));
                        }
                        NonDivergingIntrinsic::CopyNonOverlapping(_) => {
                            stmts.push(J::obj(vec![("s", js("copy_nonoverlapping")), ("sp", sp)]));
                        }
                    },
                    _ => {}
                }
            }
            let term = data.terminator();
            let sp = js(self.span(term.source_info.span));
            let exp = J::Bool(term.source_info.span.from_expansion());
            let tj = match &term.kind {
                TerminatorKind::Goto { target } => J::obj(vec![("t", js("goto")), ("target", J::i(target.as_u32()))]),
                TerminatorKind::SwitchInt { discr, targets } => {
                    let dt = discr.ty(&body.local_decls, tcx);
                    let dts = self.ty(dt);
                    let signed = matches!(dt.kind(), ty::Int(_));
                    let size = match tcx.layout_of(env.as_query_input(dt)) { Ok(l) => l.size.bytes(), Err(_) => 16 };
                    let mut cases = Vec::new();
                    for (v, t) in targets.iter() {
                        cases.push(J::Arr(vec![self.int_json(v, size, signed), J::i(t.as_u32())]));
                    }
                    J::obj(vec![("t", js("switch")), ("a", self.operand(discr, env)), ("ty", js(dts)), ("cases", J::Arr(cases)), ("otherwise", J::i(targets.otherwise().as_u32()))])
                }
                TerminatorKind::Return => J::obj(vec![("t", js("return"))]),
                TerminatorKind::Unreachable => J::obj(vec![("t", js("unreachable"))]),
                TerminatorKind::UnwindResume => J::obj(vec![("t", js("resume"))]),
                TerminatorKind::UnwindTerminate(_) => J::obj(vec![("t", js("terminate"))]),
                TerminatorKind::Drop { place, target, unwind, .. } => {
                    let pt = place.ty(&body.local_decls, tcx).ty;
                    let pts = self.ty(pt);
                    J::obj(vec![("t", js("drop")), ("p", self.place(place)), ("ty", js(pts)), ("target", J::i(target.as_u32())), ("unwind", self.unwind(unwind))])
                }
                TerminatorKind::Call { func, args, destination, target, unwind, .. } => {
                    let cj = self.callee(func, body, env);
                    let aj: Vec<J> = args.iter().map(|a| self.operand(&a.node, env)).collect();
                    let fj = self.operand(func, env);
                    J::obj(vec![
                        ("t", js("call")),
                        ("callee", cj),
                        ("func", fj),
                        ("args", J::Arr(aj)),
                        ("dest", self.place(destination)),
                        ("target", target.map(|t| J::i(t.as_u32())).unwrap_or(J::Null)),
                        ("unwind", self.unwind(unwind)),
                    ])
                }
                TerminatorKind::Assert { cond, expected, msg, target, unwind } => {
                    let (kind, ops): (String, Vec<J>) = match &**msg {
                        AssertKind::BoundsCheck { len, index } => ("BoundsCheck".into(), vec![self.operand(len, env), self.operand(index, env)]),
                        AssertKind::Overflow(op, a, b) => (format!("Overflow:{}", binop_name(*op)), vec![self.operand(a, env), self.operand(b, env)]),
                        AssertKind::OverflowNeg(a) => ("OverflowNeg".into(), vec![self.operand(a, env)]),
                        AssertKind::DivisionByZero(a) => ("DivisionByZero".into(), vec![self.operand(a, env)]),
                        AssertKind::RemainderByZero(a) => ("RemainderByZero".into(), vec![self.operand(a, env)]),
                        AssertKind::MisalignedPointerDereference { .. } => ("MisalignedPointerDereference".into(), vec![]),
                        AssertKind::NullPointerDereference => ("NullPointerDereference".into(), vec![]),
                        AssertKind::InvalidEnumConstruction(a) => ("InvalidEnumConstruction".into(), vec![self.operand(a, env)]),
                        _ => ("Other".into(), vec![]),
                    };
                    J::obj(vec![
                        ("t", js("assert")),
                        ("cond", self.operand(cond, env)),
                        ("expected", J::Bool(*expected)),
                        ("kind", js(kind)),
                        ("ops", J::Arr(ops)),
                        ("target", J::i(target.as_u32())),
                        ("unwind", self.unwind(unwind)),
                    ])
                }
                TerminatorKind::FalseEdge { real_target, .. } => J::obj(vec![("t", js("goto")), ("target", J::i(real_target.as_u32()))]),
                TerminatorKind::FalseUnwind { real_target, .. } => J::obj(vec![("t", js("goto")), ("target", J::i(real_target.as_u32()))]),
                other => J::obj(vec![("t", js("other")), ("text", js(format!("{:?}", other)))]),
            };
            let mut tv = match tj { J::Obj(v) => v, _ => vec![] };
            tv.push(("sp".to_string(), sp));
            tv.push(("exp".to_string(), exp));
            blocks.push(J::obj(vec![("stmts", J::Arr(stmts)), ("term", J::Obj(tv)), ("cleanup", J::Bool(data.is_cleanup))]));
        }
        let mut v = vec![
            ("key", js(key)),
            ("def", js(self.path(def))),
            ("span", js(self.span(body.span))),
            ("argc", J::i(body.arg_count)),
            ("locals", J::Arr(locals)),
            ("blocks", J::Arr(blocks)),
            ("poly", J::Bool(inst.map(|i| i.args.has_non_region_param()).unwrap_or(false))),
        ];
        if let Some(i) = inst {
            let targs: Vec<J> = i.args.iter().map(|a| js(with_no_trimmed_paths!(format!("{}", a)))).collect();
            v.push(("iargs", J::Arr(targs)));
        }
        for e in extra {
            v.push(e);
        }
        J::obj(v)
    }

    fn process_instance(&mut self, inst: Instance<'tcx>, env: TypingEnv<'tcx>) {
        let tcx = self.tcx;
        let def = inst.def_id();
        let external = !self.has_local_body(inst);
        if external && !self.has_ext_body(inst) {
            return;
        }
        let body0 = tcx.instance_mir(inst.def);
        let body = inst.instantiate_mir_and_normalize_erasing_regions(tcx, env, EarlyBinder::bind(body0.clone()));
        let key = self.inst_key(inst);
        // promoted bodies
        let mut promos = Vec::new();
        if let InstanceKind::Item(d) = inst.def {
            let ps = tcx.promoted_mir(d);
            for (pi, pb) in ps.iter_enumerated() {
                let pbody = inst.instantiate_mir_and_normalize_erasing_regions(tcx, env, EarlyBinder::bind(pb.clone()));
                let pkey = format!("{}::promoted[{}]", key, pi.as_u32());
                let pj = self.dump_body(&pkey, Some(inst), def, env, &pbody, vec![]);
                promos.push(pj);
            }
        }
        let j = self.dump_body(&key, Some(inst), def, env, &body, vec![("promoted", J::Arr(promos)), ("external", J::Bool(external))]);
        self.bodies.push(j);
    }

    // ------------------------------------------------------------------ roots
    /// Instantiation menu for one generic parameter, from its trait bounds.
    fn menu_for_param(&mut self, owner: DefId, idx: u32, w_menu: &[Ty<'tcx>], dtf_impls: &[Ty<'tcx>]) -> Option<Vec<Ty<'tcx>>> {
        let tcx = self.tcx;
        let preds = tcx.predicates_of(owner).instantiate_identity(tcx);
        let mut menu: Option<Vec<Ty<'tcx>>> = None;
        let mut foreign_only = false;
        for clause in preds.predicates.iter() {
            let clause = clause.skip_norm_wip();
            if let Some(tp) = clause.as_trait_clause() {
                let tp = tp.skip_binder();
                let self_ty = tp.self_ty();
                if let ty::Param(p) = self_ty.kind() {
                    if p.index != idx {
                        continue;
                    }
                    let tpath = self.path(tp.def_id());
                    if tpath.ends_with("convert::AsRef") {
                        let s = Ty::new_imm_ref(tcx, tcx.lifetimes.re_erased, tcx.types.str_);
                        menu = Some(vec![s]);
                    } else if tpath.ends_with("fmt::Write") {
                        menu = Some(w_menu.to_vec());
                    } else if tpath.ends_with("format::DateTimeFormat") {
                        menu = Some(dtf_impls.to_vec());
                    } else if tpath.ends_with("marker::Sized") || tpath.ends_with("marker::MetaSized") || tpath.ends_with("marker::PointeeSized") {
                    } else if tpath.ends_with("ops::FnMut") || tpath.ends_with("ops::FnOnce") || tpath.ends_with("ops::Fn") {
                        foreign_only = true;
                    } else {
                        foreign_only = true;
                    }
                }
            }
        }
        if menu.is_none() && foreign_only {
            return None;
        }
        menu
    }

    fn root_instances(&mut self, def: DefId, w_menu: &[Ty<'tcx>], dtf_impls: &[Ty<'tcx>]) -> Vec<(Instance<'tcx>, TypingEnv<'tcx>)> {
        let tcx = self.tcx;
        let generics = tcx.generics_of(def);
        // collect type/const params (including parents)
        let mut choices: Vec<Vec<Option<ty::GenericArg<'tcx>>>> = Vec::new();
        let ident = GenericArgs::identity_for_item(tcx, def);
        let mut g = Some(generics);
        let mut params = Vec::new();
        while let Some(gg) = g {
            for p in gg.own_params.iter() {
                params.push((p.index, p.kind.clone(), p.def_id));
            }
            g = gg.parent.map(|p| tcx.generics_of(p));
        }
        params.sort_by_key(|p| p.0);
        for (idx, kind, _pd) in params.iter() {
            match kind {
                ty::GenericParamDefKind::Lifetime => choices.push(vec![Some(tcx.lifetimes.re_erased.into())]),
                ty::GenericParamDefKind::Type { .. } => {
                    match self.menu_for_param(def, *idx, w_menu, dtf_impls) {
                        Some(m) => choices.push(m.into_iter().map(|t| Some(t.into())).collect()),
                        None => choices.push(vec![None]),
                    }
                }
                ty::GenericParamDefKind::Const { .. } => choices.push(vec![None]),
            }
        }
        // cartesian product
        let mut combos: Vec<Vec<Option<ty::GenericArg<'tcx>>>> = vec![vec![]];
        for c in choices.iter() {
            let mut next = Vec::new();
            for base in combos.iter() {
                for x in c.iter() {
                    let mut b = base.clone();
                    b.push(*x);
                    next.push(b);
                }
            }
            combos = next;
        }
        let mut out = Vec::new();
        for combo in combos {
            let args: Vec<ty::GenericArg<'tcx>> = combo.iter().enumerate().map(|(i, c)| c.unwrap_or(ident[i])).collect();
            let args = tcx.mk_args(&args);
            let poly = args.has_non_region_param();
            let env = if poly { TypingEnv::post_analysis(tcx, def) } else { TypingEnv::fully_monomorphized() };
            out.push((Instance::new_raw(def, args), env));
        }
        out
    }

    // ------------------------------------------------------------------ driver
    fn run(&mut self) -> J {
        let tcx = self.tcx;
        let ev = tcx.effective_visibilities(());
        let defs: Vec<LocalDefId> = tcx.hir_crate_items(()).definitions().collect();

        // DateTimeFormat impls (closed set: trait lives in a private module)
        let mut dtf_impls: Vec<Ty<'tcx>> = Vec::new();
        let mut dtf_trait: Option<DefId> = None;
        for d in defs.iter() {
            if matches!(tcx.def_kind(*d), DefKind::Trait) && self.path(d.to_def_id()).ends_with("format::DateTimeFormat") {
                dtf_trait = Some(d.to_def_id());
            }
        }
        if let Some(t) = dtf_trait {
            for imp in tcx.all_impls(t) {
                let tr = tcx.impl_trait_ref(imp).instantiate_identity().skip_norm_wip();
                dtf_impls.push(tr.self_ty());
            }
        } else {
            self.errors.push("anchor missing: trait format::DateTimeFormat".into());
        }
        dtf_impls.sort_by_key(|t| with_no_trimmed_paths!(format!("{}", t)));

        // W menu: &mut String, &mut fmt::Formatter (StackStr<32> arises from the serde impls themselves)
        let mut w_menu: Vec<Ty<'tcx>> = Vec::new();
        if let Some(sd) = tcx.lang_items().string() {
            let st = tcx.type_of(sd).instantiate_identity().skip_norm_wip();
            w_menu.push(Ty::new_mut_ref(tcx, tcx.lifetimes.re_erased, st));
        } else {
            self.errors.push("anchor missing: lang item String".into());
        }

        // ---- items, impls, consts, statics
        let mut items = Vec::new();
        let mut impls = Vec::new();
        let mut consts = Vec::new();
        let mut statics = Vec::new();
        let mut traits = Vec::new();
        let mut adts = Vec::new();
        let mut roots_defs: Vec<DefId> = Vec::new();
        let menv = TypingEnv::fully_monomorphized();
        for ld in defs.iter() {
            let d = ld.to_def_id();
            let kind = tcx.def_kind(d);
            match kind {
                DefKind::Fn | DefKind::AssocFn => {
                    let sig = tcx.fn_sig(d).instantiate_identity().skip_norm_wip();
                    let is_unsafe = sig.safety().is_unsafe();
                    let reachable = ev.is_reachable(*ld);
                    let impl_of = tcx.impl_of_assoc(d);
                    let trait_impl = tcx.trait_impl_of_assoc(d);
                    let derived = impl_of.map(|i| tcx.is_automatically_derived(i)).unwrap_or(false);
                    let in_trait_decl = matches!(tcx.opt_parent(d).map(|p| tcx.def_kind(p)), Some(DefKind::Trait));
                    let has_body = tcx.is_mir_available(d);
                    let gens = tcx.generics_of(d);
                    let ngen = gens.count();
                    let exported = ev.is_exported(*ld);
                    // which local ADTs does the impl header mention (self type and trait args)?
                    let mut header_adts: Vec<J> = Vec::new();
                    let mut foreign_trait = false;
                    if let Some(i) = impl_of {
                        let mut tys: Vec<Ty<'tcx>> = vec![tcx.type_of(i).instantiate_identity().skip_norm_wip()];
                        if trait_impl.is_some() {
                            let r = tcx.impl_trait_ref(i).instantiate_identity().skip_norm_wip();
                            foreign_trait = !r.def_id.is_local();
                            for a in r.args.iter() {
                                if let Some(t) = a.as_type() {
                                    tys.push(t);
                                }
                            }
                        }
                        for t in tys {
                            for inner in t.walk() {
                                if let Some(it) = inner.as_type() {
                                    if let ty::Adt(ad, _) = it.kind() {
                                        if let Some(l) = ad.did().as_local() {
                                            header_adts.push(J::obj(vec![
                                                ("def", js(self.path(ad.did()))),
                                                ("exported", J::Bool(ev.is_exported(l))),
                                                ("reachable", J::Bool(ev.is_reachable(l))),
                                            ]));
                                        }
                                    }
                                }
                            }
                        }
                    }
                    // dump generously; the checker's spec decides which dumped instances are roots
                    let is_root = !is_unsafe && !derived && has_body && !in_trait_decl && (reachable || trait_impl.is_some());
                    if is_root {
                        roots_defs.push(d);
                    }
                    let sigs = with_no_trimmed_paths!(format!("{}", sig));
                    items.push(J::obj(vec![
                        ("def", js(self.path(d))),
                        ("kind", js(if matches!(kind, DefKind::Fn) { "fn" } else { "assoc_fn" })),
                        ("span", js(self.span(tcx.def_span(d)))),
                        ("reachable", J::Bool(reachable)),
                        ("exported", J::Bool(exported)),
                        ("header_adts", J::Arr(header_adts)),
                        ("foreign_trait", J::Bool(foreign_trait)),
                        ("unsafe", J::Bool(is_unsafe)),
                        ("const", J::Bool(tcx.is_const_fn(d))),
                        ("derived", J::Bool(derived)),
                        ("impl", impl_of.map(|i| js(self.path(i))).unwrap_or(J::Null)),
                        ("trait_impl", J::Bool(trait_impl.is_some())),
                        ("in_trait_decl", J::Bool(in_trait_decl)),
                        ("has_body", J::Bool(has_body)),
                        ("generics", J::i(ngen)),
                        ("sig", js(sigs)),
                        ("root", J::Bool(is_root)),
                    ]));
                }
                DefKind::Impl { of_trait } => {
                    let self_ty = tcx.type_of(d).instantiate_identity().skip_norm_wip();
                    let sts = self.ty(self_ty);
                    let (tr, trargs) = if of_trait {
                        let r = tcx.impl_trait_ref(d).instantiate_identity().skip_norm_wip();
                        let targs: Vec<J> = r.args.iter().map(|a| js(with_no_trimmed_paths!(format!("{}", a)))).collect();
                        (js(self.path(r.def_id)), J::Arr(targs))
                    } else {
                        (J::Null, J::Arr(vec![]))
                    };
                    let mut assoc = Vec::new();
                    for ai in tcx.associated_items(d).in_definition_order() {
                        assoc.push(js(self.path(ai.def_id)));
                    }
                    impls.push(J::obj(vec![
                        ("def", js(self.path(d))),
                        ("span", js(self.span(tcx.def_span(d)))),
                        ("self_ty", js(sts)),
                        ("trait", tr),
                        ("trait_args", trargs),
                        ("derived", J::Bool(tcx.is_automatically_derived(d))),
                        ("items", J::Arr(assoc)),
                    ]));
                }
                DefKind::Const { .. } | DefKind::AssocConst { .. } => {
                    let gens = tcx.generics_of(d);
                    let in_trait_decl = matches!(tcx.opt_parent(d).map(|p| tcx.def_kind(p)), Some(DefKind::Trait));
                    if gens.count() == 0 && !in_trait_decl {
                        let t = tcx.type_of(d).instantiate_identity().skip_norm_wip();
                        let ts = self.ty(t);
                        let val = match tcx.const_eval_poly(d) {
                            Ok(cv) => self.decode_const_value(cv, t, menv),
                            Err(_) => J::obj(vec![("c", js("uneval"))]),
                        };
                        consts.push(J::obj(vec![
                            ("def", js(self.path(d))),
                            ("span", js(self.span(tcx.def_span(d)))),
                            ("ty", js(ts)),
                            ("val", val),
                            ("impl", tcx.impl_of_assoc(d).map(|i| js(self.path(i))).unwrap_or(J::Null)),
                            ("reachable", J::Bool(ev.is_reachable(*ld))),
                        ]));
                    } else if in_trait_decl {
                        // trait-level default for an associated const (e.g. YEAR_MAX_LENGTH = 4)
                        consts.push(J::obj(vec![
                            ("def", js(self.path(d))),
                            ("span", js(self.span(tcx.def_span(d)))),
                            ("trait_default", J::Bool(tcx.defaultness(d).has_value())),
                        ]));
                    }
                }
                DefKind::Static { .. } => {
                    let t = tcx.type_of(d).instantiate_identity().skip_norm_wip();
                    let ts = self.ty(t);
                    // the initializer body (a closure handed to Lazy::new shows up here)
                    let body = tcx.mir_for_ctfe(d);
                    let key = format!("static {}", self.path(d));
                    let bj = self.dump_body(&key, None, d, menv, body, vec![]);
                    self.bodies.push(bj);
                    statics.push(J::obj(vec![("def", js(self.path(d))), ("ty", js(ts)), ("span", js(self.span(tcx.def_span(d)))), ("body", js(key))]));
                }
                DefKind::Trait => {
                    let mut assoc = Vec::new();
                    for ai in tcx.associated_items(d).in_definition_order() {
                        assoc.push(js(self.path(ai.def_id)));
                    }
                    traits.push(J::obj(vec![
                        ("def", js(self.path(d))),
                        ("reachable", J::Bool(ev.is_reachable(*ld))),
                        ("items", J::Arr(assoc)),
                    ]));
                }
                DefKind::Struct | DefKind::Enum => {
                    let t = tcx.type_of(d).instantiate_identity().skip_norm_wip();
                    if !t.has_non_region_param() {
                        self.ty(t);
                    }
                    let parent_is_fn = matches!(tcx.opt_parent(d).map(|p| tcx.def_kind(p)), Some(DefKind::Fn | DefKind::AssocFn));
                    adts.push(J::obj(vec![
                        ("def", js(self.path(d))),
                        ("span", js(self.span(tcx.def_span(d)))),
                        ("exported", J::Bool(ev.is_exported(*ld))),
                        ("reachable", J::Bool(ev.is_reachable(*ld))),
                        ("in_fn", J::Bool(parent_is_fn)),
                        ("ty", js(with_no_trimmed_paths!(format!("{}", t)))),
                    ]));
                }
                _ => {}
            }
        }

        // associated consts of every DateTimeFormat impl (incl. inherited defaults), evaluated per impl
        let mut dtf_consts = Vec::new();
        if let Some(t) = dtf_trait {
            for ai in tcx.associated_items(t).in_definition_order() {
                if !matches!(ai.kind, ty::AssocKind::Const { .. }) {
                    continue;
                }
                for st in dtf_impls.clone().iter() {
                    let args = tcx.mk_args(&[(*st).into()]);
                    let uv = mir::UnevaluatedConst { def: ai.def_id, args, promoted: None };
                    let cty = tcx.type_of(ai.def_id).instantiate(tcx, args).skip_norm_wip();
                    let c = Const::Unevaluated(uv, cty);
                    let val = match c.eval(tcx, menv, rustc_span::DUMMY_SP) {
                        Ok(cv) => self.decode_const_value(cv, cty, menv),
                        Err(_) => J::obj(vec![("c", js("uneval"))]),
                    };
                    dtf_consts.push(J::obj(vec![
                        ("name", js(ai.name().to_string())),
                        ("self_ty", js(with_no_trimmed_paths!(format!("{}", st)))),
                        ("val", val),
                    ]));
                }
            }
        }

        // ---- roots
        let mut roots = Vec::new();
        for d in roots_defs.iter() {
            let insts = self.root_instances(*d, &w_menu, &dtf_impls);
            for (inst, env) in insts {
                let key = self.inst_key(inst);
                roots.push(J::obj(vec![
                    ("key", js(key)),
                    ("def", js(self.path(*d))),
                    ("poly", J::Bool(inst.args.has_non_region_param())),
                ]));
                self.enqueue(inst, env);
            }
        }

        // ---- worklist
        while let Some((inst, env)) = self.work.pop_front() {
            self.process_instance(inst, env);
        }

        let types: Vec<(String, J)> = std::mem::take(&mut self.types).into_iter().collect();
        let ext: Vec<(String, J)> = self.ext.iter().map(|(k, v)| (k.clone(), J::i(*v))).collect();
        let feats: Vec<J> = tcx.sess.opts.cg.target_feature.split(',').filter(|s| !s.is_empty()).map(|s| js(s)).collect();
        let _ = feats;
        let mut cfgs: Vec<J> = Vec::new();
        for (name, val) in tcx.sess.config.iter() {
            if name.as_str() == "feature" {
                if let Some(v) = val {
                    cfgs.push(js(v.to_string()));
                }
            }
        }
        J::obj(vec![
            ("crate", js(tcx.crate_name(rustc_hir::def_id::LOCAL_CRATE).to_string())),
            ("features", J::Arr(cfgs)),
            ("overflow_checks", J::Bool(tcx.sess.overflow_checks())),
            ("debug_assertions", J::Bool(tcx.sess.opts.debug_assertions)),
            ("errors", J::Arr(self.errors.iter().map(|e| js(e.clone())).collect())),
            ("items", J::Arr(items)),
            ("impls", J::Arr(impls)),
            ("traits", J::Arr(traits)),
            ("adts", J::Arr(adts)),
            ("consts", J::Arr(consts)),
            ("dtf_consts", J::Arr(dtf_consts)),
            ("dtf_impls", J::Arr(dtf_impls.iter().map(|t| js(with_no_trimmed_paths!(format!("{}", t)))).collect())),
            ("statics", J::Arr(statics)),
            ("roots", J::Arr(roots)),
            ("bodies", J::Arr(std::mem::take(&mut self.bodies))),
            ("externals", J::Obj(ext)),
            ("types", J::Obj(types)),
        ])
    }
}

fn discr_to_i128<'tcx>(tcx: TyCtxt<'tcx>, d: ty::util::Discr<'tcx>) -> i128 {
    let t = d.ty;
    match t.kind() {
        ty::Int(it) => {
            let bits = it.bit_width().unwrap_or(tcx.data_layout.pointer_size().bits()) as u32;
            if bits >= 128 {
                d.val as i128
            } else {
                let sign = 1u128 << (bits - 1);
                if d.val & sign != 0 { (d.val as i128) - (1i128 << bits) } else { d.val as i128 }
            }
        }
        _ => d.val as i128,
    }
}

fn binop_name(op: BinOp) -> &'static str {
    match op {
        BinOp::Add => "Add",
        BinOp::AddUnchecked => "AddUnchecked",
        BinOp::AddWithOverflow => "AddWithOverflow",
        BinOp::Sub => "Sub",
        BinOp::SubUnchecked => "SubUnchecked",
        BinOp::SubWithOverflow => "SubWithOverflow",
        BinOp::Mul => "Mul",
        BinOp::MulUnchecked => "MulUnchecked",
        BinOp::MulWithOverflow => "MulWithOverflow",
        BinOp::Div => "Div",
        BinOp::Rem => "Rem",
        BinOp::BitXor => "BitXor",
        BinOp::BitAnd => "BitAnd",
        BinOp::BitOr => "BitOr",
        BinOp::Shl => "Shl",
        BinOp::ShlUnchecked => "ShlUnchecked",
        BinOp::Shr => "Shr",
        BinOp::ShrUnchecked => "ShrUnchecked",
        BinOp::Eq => "Eq",
        BinOp::Lt => "Lt",
        BinOp::Le => "Le",
        BinOp::Ne => "Ne",
        BinOp::Ge => "Ge",
        BinOp::Gt => "Gt",
        BinOp::Cmp => "Cmp",
        BinOp::Offset => "Offset",
    }
}

#[allow(dead_code)]
fn _unused(_: FieldIdx, _: VariantIdx) {}
