#!/bin/sh
# Build the fact extractor (rustc_private driver). Offline, from files on disk only.
set -e
cd "$(dirname "$0")"
export CARGO_NET_OFFLINE=true
(cd driver && cargo +nightly build --release --offline 2>&1 | tail -3)
test -x driver/target/release/mirdump
echo "setup ok"
