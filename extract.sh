#!/bin/sh
# usage: extract.sh <features (comma list, may be empty)> <out.json> [debug_assertions on|off]
# Runs cargo +nightly check on /repo's lib with the mirdump wrapper in a fresh target dir.
set -e
FEATS="$1"; OUT="$2"; DA="${3:-on}"
HERE="$(cd "$(dirname "$0")" && pwd)"
REPO="${VERIF_REPO:-/repo}"
DRV="$HERE/driver/target/release/mirdump"
test -x "$DRV" || { echo "ANALYSIS-INCOMPLETE driver not built (run ./setup.sh)"; exit 2; }
SYS="$(rustc +nightly --print sysroot)"
TD="$(mktemp -d "${TMPDIR:-/tmp}/mirdump-target.XXXXXX")"
trap 'rm -rf "$TD"' EXIT
FA=""
[ -n "$FEATS" ] && FA="--features $FEATS"
rm -f "$OUT"
cd "$REPO"
CARGO_NET_OFFLINE=true LD_LIBRARY_PATH="$SYS/lib" \
RUSTFLAGS="-Zmir-opt-level=0 -Awarnings -Coverflow-checks=on -Cdebug-assertions=$DA" \
RUSTC_WORKSPACE_WRAPPER="$DRV" MIRDUMP_OUT="$OUT" MIRDUMP_CRATE=sqldatetime \
CARGO_TARGET_DIR="$TD" cargo +nightly check --offline --lib $FA -q 2>"$TD/stderr.txt" || { cat "$TD/stderr.txt"; echo "ANALYSIS-INCOMPLETE cargo check failed"; exit 2; }
test -s "$OUT" || { cat "$TD/stderr.txt"; echo "ANALYSIS-INCOMPLETE no fact file written"; exit 2; }
