//! E4: type-level witnesses (DESIGN.md section 2).  Each `compile_fail` doctest has a compiling twin that
//! differs only in the offending line, so a witness cannot pass merely because a path is wrong.
//! Run with `cargo +nightly test --doc --offline` (the error codes are only checked on nightly).

/// The representation field of `Date` is private: a value cannot be forged outside the crate.
/// ```compile_fail,E0423
/// let d = sqldatetime::Date(5);
/// ```
/// twin:
/// ```no_run
/// let d = sqldatetime::Date::try_from_days(5);
/// ```
pub struct DateFieldPrivate;

/// ```compile_fail,E0423
/// let t = sqldatetime::Time(5);
/// ```
/// ```no_run
/// let t = sqldatetime::Time::try_from_usecs(5);
/// ```
pub struct TimeFieldPrivate;

/// ```compile_fail,E0423
/// let t = sqldatetime::Timestamp(5);
/// ```
/// ```no_run
/// let t = sqldatetime::Timestamp::try_from_usecs(5);
/// ```
pub struct TimestampFieldPrivate;

/// ```compile_fail,E0423
/// let t = sqldatetime::IntervalYM(5);
/// ```
/// ```no_run
/// let t = sqldatetime::IntervalYM::try_from_months(5);
/// ```
pub struct IntervalYmFieldPrivate;

/// ```compile_fail,E0423
/// let t = sqldatetime::IntervalDT(5);
/// ```
/// ```no_run
/// let t = sqldatetime::IntervalDT::try_from_usecs(5);
/// ```
pub struct IntervalDtFieldPrivate;

/// ```compile_fail,E0423
/// let t = sqldatetime::OracleDate(sqldatetime::Timestamp::MIN);
/// ```
/// ```no_run
/// let t = sqldatetime::OracleDate::from(sqldatetime::Timestamp::MIN);
/// ```
pub struct OracleDateFieldPrivate;

/// The field cannot be read or written through a projection either.
/// ```compile_fail,E0616
/// let d = sqldatetime::Date::MIN;
/// let n = d.0;
/// ```
/// ```no_run
/// let d = sqldatetime::Date::MIN;
/// let n = d.days();
/// ```
pub struct DateFieldNotProjectable;

/// The unchecked constructors are `unsafe`: safe code cannot call them.
/// ```compile_fail,E0133
/// let d = sqldatetime::Date::from_days_unchecked(5);
/// ```
/// ```no_run
/// let d = unsafe { sqldatetime::Date::from_days_unchecked(5) };
/// ```
pub struct UncheckedIsUnsafe;

/// ```compile_fail,E0133
/// let d = sqldatetime::Timestamp::from_usecs_unchecked(5);
/// ```
/// ```no_run
/// let d = unsafe { sqldatetime::Timestamp::from_usecs_unchecked(5) };
/// ```
pub struct UncheckedTimestampIsUnsafe;

/// `DateTimeFormat` lives in a private module: the set of types `Formatter::format/parse` accept is closed
/// (the crate's own six impls).
/// ```compile_fail,E0603
/// struct X;
/// fn f<T: sqldatetime::format::DateTimeFormat>() {}
/// ```
/// ```no_run
/// fn f(fmt: &sqldatetime::Formatter, d: sqldatetime::Date) { let mut s = String::new(); let _ = fmt.format(d, &mut s); }
/// ```
pub struct FormatTraitPrivate;

/// The parse record type is not nameable: `TryFrom<NaiveDateTime>` cannot be called from outside.
/// ```compile_fail,E0603
/// fn f(x: sqldatetime::format::NaiveDateTime) {}
/// ```
/// ```no_run
/// fn f(x: sqldatetime::Date) {}
/// ```
pub struct RecordTypePrivate;
